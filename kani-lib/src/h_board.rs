//! C14: MR2DA2 board.  One-operation lemmas from an arbitrary board satisfying the
//! representation invariant `binv`, operation arguments symbolic (all 2^32 f32 bit
//! patterns, all bytes).  `binv` holds for `Board::new()` and is preserved by every
//! operation, so the lemmas cover interleavings of any length by induction.
use crate::kani;
use crate::st::*;
use emulator_2a_lib::machine::{Board, Bus, VerifBoardParts};

const J2: u8 = 0x80;
const J1: u8 = 0x40;
const FAN: u8 = 0x20;
const CP2: u8 = 0x10;
const CP1: u8 = 0x08;
const UIO: [u8; 3] = [0x01, 0x02, 0x04];
const I_PENDING: u8 = 0x08;
const I_REQUESTED: u8 = 0x04;
const I_FF: u8 = 0x02;
const I_SOURCE: u8 = 0x01;
const C_FALLING: u8 = 0x08;

fn dac(v: u8) -> f32 {
    v as f32 / 100.0
}
fn fmax(a: f32, b: f32) -> f32 {
    // both operands are never NaN under binv
    if a > b { a } else { b }
}
fn volt_ok(v: f32) -> bool {
    v >= 0.0 && v <= 5.0 // false for NaN
}
fn rpm_of(dout1: u8) -> usize {
    (4200 as f32 * dac(dout1) / 2.55) as usize
}

/// Representation invariant of the board (reference side).
pub fn binv(p: &VerifBoardParts) -> bool {
    volt_ok(p.temp)
        && volt_ok(p.analog_inputs[0])
        && volt_ok(p.analog_inputs[1])
        && p.analog_outputs[0].to_bits() == dac(p.digital_output1).to_bits()
        && p.analog_outputs[1].to_bits() == dac(p.digital_output2).to_bits()
        && ((p.dasr & CP1 != 0) == (p.analog_inputs[0] > dac(p.digital_output1)))
        && ((p.dasr & CP2 != 0) == (fmax(p.temp, p.analog_inputs[1]) > dac(p.digital_output2)))
        && p.fan_rpm == rpm_of(p.digital_output1)
}

pub fn any_inv_board() -> Board {
    let p = any_board_parts();
    kani::assume(binv(&p));
    Board::verif_assemble(p)
}

/// Reference clamp: stored voltage for an applied value.
fn clamp_ok(applied: f32, stored: f32) -> bool {
    if applied.is_nan() {
        stored == 0.0
    } else if applied < 0.0 {
        stored == 0.0
    } else if applied > 5.0 {
        stored == 5.0
    } else {
        stored == applied
    }
}

fn source(p: &VerifBoardParts) -> u8 {
    p.daicr & 7
}

/// Reference interrupt rule: flags after a level change old->new of source `src`.
fn daisr_after(p: &VerifBoardParts, src: u8, old: bool, new: bool) -> u8 {
    let falling = p.daicr & C_FALLING != 0;
    let edge = if falling { old && !new } else { !old && new };
    if source(p) == src && edge {
        p.daisr | I_SOURCE | I_FF
    } else {
        p.daisr
    }
}

fn same_except(a: &VerifBoardParts, b: &VerifBoardParts) -> bool {
    Board::verif_assemble(*a).verif_parts().dasr == Board::verif_assemble(*b).verif_parts().dasr
}

#[cfg_attr(kani, kani::proof)]
pub fn board_new_satisfies_invariant() {
    let p = Board::new().verif_parts();
    assert!(binv(&p), "binv(Board::new())");
    assert!(p.dasr == 0 && p.daisr == 0 && p.daicr == 0, "power-on flags");
    kani::cover!(true, "reached");
}

#[cfg_attr(kani, kani::proof)]
pub fn board_analog_input1() {
    let mut b = any_inv_board();
    let p = b.verif_parts();
    let v = f32_any();
    b.set_analog_input1(v);
    let q = b.verif_parts();
    assert!(clamp_ok(v, q.analog_inputs[0]), "clamp I1");
    let new = q.analog_inputs[0] > dac(p.digital_output1);
    assert!((q.dasr & CP1 != 0) == new, "comparator 1");
    assert!(q.daisr == daisr_after(&p, 4, p.dasr & CP1 != 0, new), "interrupt flags");
    assert!(q.dasr & !CP1 == p.dasr & !CP1, "other status bits");
    let mut e = p;
    e.analog_inputs[0] = q.analog_inputs[0];
    e.dasr = q.dasr;
    e.daisr = q.daisr;
    assert!(same_board(&Board::verif_assemble(e), &b), "frame");
    assert!(binv(&q), "invariant kept");
    kani::cover!(v.is_nan(), "NaN applied");
    kani::cover!(q.daisr != p.daisr, "interrupt raised");
}

#[cfg_attr(kani, kani::proof)]
pub fn board_analog_input2_and_temp() {
    let mut b = any_inv_board();
    let p = b.verif_parts();
    let v = f32_any();
    let which_temp: bool = kani::any();
    if which_temp {
        b.set_temp(v);
    } else {
        b.set_analog_input2(v);
    }
    let q = b.verif_parts();
    if which_temp {
        assert!(clamp_ok(v, q.temp), "clamp temp");
        assert!(q.analog_inputs[1].to_bits() == p.analog_inputs[1].to_bits(), "I2 untouched");
    } else {
        assert!(clamp_ok(v, q.analog_inputs[1]), "clamp I2");
        assert!(q.temp.to_bits() == p.temp.to_bits(), "temp untouched");
    }
    let new = fmax(q.temp, q.analog_inputs[1]) > dac(p.digital_output2);
    assert!((q.dasr & CP2 != 0) == new, "comparator 2 uses the larger of I2 and the sensor");
    assert!(q.daisr == daisr_after(&p, 5, p.dasr & CP2 != 0, new), "interrupt flags");
    assert!(q.dasr & !CP2 == p.dasr & !CP2, "other status bits");
    let mut e = p;
    e.temp = q.temp;
    e.analog_inputs[1] = q.analog_inputs[1];
    e.dasr = q.dasr;
    e.daisr = q.daisr;
    assert!(same_board(&Board::verif_assemble(e), &b), "frame");
    assert!(binv(&q), "invariant kept");
    kani::cover!(v.is_nan() && which_temp, "NaN temp");
    kani::cover!(q.daisr != p.daisr, "interrupt raised");
}

#[cfg_attr(kani, kani::proof)]
pub fn board_dac_writes() {
    let mut b = any_inv_board();
    let p = b.verif_parts();
    let v: u8 = kani::any();
    let second: bool = kani::any();
    if second {
        b.set_digital_output2(v);
    } else {
        b.set_digital_output1(v);
    }
    let q = b.verif_parts();
    let mut e = p;
    if second {
        assert!(q.digital_output2 == v, "port 2");
        assert!(q.analog_outputs[1].to_bits() == dac(v).to_bits(), "DAC2 = byte/100");
        let new = fmax(p.temp, p.analog_inputs[1]) > dac(v);
        assert!((q.dasr & CP2 != 0) == new, "comparator 2 follows the DAC");
        assert!(q.daisr == daisr_after(&p, 5, p.dasr & CP2 != 0, new), "interrupt by DAC write");
        assert!(q.dasr & !CP2 == p.dasr & !CP2, "other status bits");
        e.digital_output2 = v;
        e.analog_outputs[1] = q.analog_outputs[1];
    } else {
        assert!(q.digital_output1 == v, "port 1");
        assert!(q.analog_outputs[0].to_bits() == dac(v).to_bits(), "DAC1 = byte/100");
        let new = p.analog_inputs[0] > dac(v);
        assert!((q.dasr & CP1 != 0) == new, "comparator 1 follows the DAC");
        assert!(q.daisr == daisr_after(&p, 4, p.dasr & CP1 != 0, new), "interrupt by DAC write");
        assert!(q.dasr & !(CP1 | FAN) == p.dasr & !(CP1 | FAN), "other status bits");
        assert!(q.fan_rpm == rpm_of(v), "fan speed follows DAC1");
        e.digital_output1 = v;
        e.analog_outputs[0] = q.analog_outputs[0];
        e.fan_rpm = q.fan_rpm;
    }
    e.dasr = q.dasr;
    e.daisr = q.daisr;
    assert!(same_board(&Board::verif_assemble(e), &b), "frame");
    assert!(binv(&q), "invariant kept");
    kani::cover!(q.daisr != p.daisr, "interrupt raised");
}

#[cfg_attr(kani, kani::proof)]
pub fn board_jumpers_and_input_port() {
    let mut b = any_inv_board();
    let p = b.verif_parts();
    let which: u8 = kani::any();
    kani::assume(which < 3);
    let level: bool = kani::any();
    let byte: u8 = kani::any();
    let mut e = p;
    match which {
        0 => {
            b.set_jumper1(level);
            e.dasr = (p.dasr & !J1) | if level { J1 } else { 0 };
            e.daisr = daisr_after(&p, 6, p.dasr & J1 != 0, level);
        }
        1 => {
            b.set_jumper2(level);
            e.dasr = (p.dasr & !J2) | if level { J2 } else { 0 };
        }
        _ => {
            b.set_digital_input1(byte);
            e.digital_input1 = byte;
        }
    }
    assert!(same_board(&Board::verif_assemble(e), &b), "jumper / input port semantics and frame");
    assert!(binv(&b.verif_parts()), "invariant kept");
    kani::cover!(b.verif_parts().daisr != p.daisr, "interrupt raised");
}

#[cfg_attr(kani, kani::proof)]
pub fn board_uio_pins() {
    let mut b = any_inv_board();
    let p = b.verif_parts();
    let k: usize = kani::any();
    kani::assume(k < 3);
    let level: bool = kani::any();
    match k {
        0 => b.set_universal_input_output1(level),
        1 => b.set_universal_input_output2(level),
        _ => b.set_universal_input_output3(level),
    }
    let mut e = p;
    if !p.uio_dir[k] {
        // configured as input: visible at once, edge interrupt if selected
        e.dasr = (p.dasr & !UIO[k]) | if level { UIO[k] } else { 0 };
        e.daisr = daisr_after(&p, (k + 1) as u8, p.dasr & UIO[k] != 0, level);
    } // configured as output: ignored entirely
    assert!(same_board(&Board::verif_assemble(e), &b), "UIO semantics and frame");
    assert!(binv(&b.verif_parts()), "invariant kept");
    kani::cover!(p.uio_dir[k], "output pin");
    kani::cover!(b.verif_parts().daisr != p.daisr, "interrupt raised");
}

/// Writes to 0xF2 (UOR/UDR/ICR decoding) and 0xF3 (clear flip-flop) through the real bus.
#[cfg_attr(kani, kani::proof)]
pub fn board_control_writes_via_bus() {
    let mut bus = Bus::new();
    *bus.board_mut() = any_inv_board();
    let p = bus.board().verif_parts();
    let byte: u8 = kani::any();
    let f3: bool = kani::any();
    bus.write(if f3 { 0xF3 } else { 0xF2 }, byte);
    let mut e = p;
    if f3 {
        e.daisr = p.daisr & !I_FF;
    } else {
        match byte >> 6 {
            0 => {
                // UOR: levels driven by the program on its output pins.  The property only speaks about
                // externally applied changes, so only the frame is asserted: nothing but the three UIO
                // status bits may change.
                e.dasr = (p.dasr & !7) | (bus.board().verif_parts().dasr & 7);
            }
            1 => {}                                              // nothing
            2 => e.uio_dir = [byte & 1 != 0, byte & 2 != 0, byte & 4 != 0], // UDR
            _ => {
                e.daicr = byte & 0x3F;                           // ICR
                e.daisr = p.daisr & !(I_PENDING | I_REQUESTED | I_FF);
            }
        }
    }
    assert!(same_board(&Board::verif_assemble(e), bus.board()), "F2/F3 decoding and frame");
    assert!(binv(&bus.board().verif_parts()), "invariant kept");
    kani::cover!(!f3 && byte >> 6 == 3, "icr");
}

/// Fan period register (read of 0xF2): 255 - 255*V/2.55V with V = DAC1 voltage = byte/100,
/// i.e. 255 - byte, within +-1 for the two float->int truncations.
#[cfg_attr(kani, kani::proof)]
pub fn board_fan_period_law() {
    let mut bus = Bus::new();
    *bus.board_mut() = any_inv_board();
    let d = bus.board().verif_parts().digital_output1 as i32;
    let period = bus.read(0xF2) as i32;
    let ideal = 255 - d;
    assert!(period - ideal <= 1 && ideal - period <= 1, "fan period law");
    kani::cover!(period != 0, "non-zero period");
}

/// Status reads through the bus reflect the board registers.
#[cfg_attr(kani, kani::proof)]
pub fn board_status_reads() {
    let mut bus = Bus::new();
    *bus.board_mut() = any_inv_board();
    let p = bus.board().verif_parts();
    assert!(bus.read(0xF0) == p.digital_input1, "F0 = input port");
    assert!(bus.read(0xF1) == p.dasr, "F1 = DASR");
    assert!(bus.read(0xF3) == p.daisr, "F3 = DAISR");
    kani::cover!(true, "reached");
}

/// The `Machine`-level board setters are the board setters (external input changes enter the
/// board through them) and touch nothing but the board.
#[cfg_attr(kani, kani::proof)]
pub fn machine_board_setters_delegate() {
    let mut m = any_machine();
    let pre = m.clone();
    let op: u8 = kani::any();
    kani::assume(op < 9);
    let byte: u8 = kani::any();
    let level: bool = kani::any();
    let volt = f32_any();
    let mut expect = pre.bus().board().clone();
    match op {
        0 => {
            m.set_digital_input1(byte);
            expect.set_digital_input1(byte)
        }
        1 => {
            m.set_temp(volt);
            expect.set_temp(volt)
        }
        2 => {
            m.set_jumper1(level);
            expect.set_jumper1(level)
        }
        3 => {
            m.set_jumper2(level);
            expect.set_jumper2(level)
        }
        4 => {
            m.set_analog_input1(volt);
            expect.set_analog_input1(volt)
        }
        5 => {
            m.set_analog_input2(volt);
            expect.set_analog_input2(volt)
        }
        6 => {
            m.set_universal_input_output1(level);
            expect.set_universal_input_output1(level)
        }
        7 => {
            m.set_universal_input_output2(level);
            expect.set_universal_input_output2(level)
        }
        _ => {
            m.set_universal_input_output3(level);
            expect.set_universal_input_output3(level)
        }
    }
    assert!(same_board(m.bus().board(), &expect), "Machine setter == board setter");
    assert!(same_bus_regs(m.bus(), pre.bus()), "bus registers untouched");
    assert!(same_core(&m, &pre) && same_limits(&m, &pre), "CPU untouched");
    let i = any_ram_index();
    assert!(m.bus().memory()[i] == pre.bus().memory()[i], "RAM untouched");
    kani::cover!(op == 8, "uio3");
}
