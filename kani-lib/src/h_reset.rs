//! C07: CPU reset, master reset and program load, from a fully arbitrary machine
//! (every hidden field symbolic through the hooks; floats as bit patterns).
use crate::kani;
use crate::st::*;
use emulator_2a_lib::compiler::ByteCode;
use emulator_2a_lib::machine::{Machine, MachineConfig, RawMachine, State, StepMode};
use emulator_2a_lib::parser::{Line, Programsize, Stacksize};

/// Power-on values of the CPU side, written from the property text / struct docs.
fn assert_cpu_power_on(m: &RawMachine) {
    let r = m.registers().content();
    let mut i = 0;
    while i < 8 {
        assert!(r[i] == 0, "register cleared");
        i += 1;
    }
    assert!(m.verif_ir() == 0x02, "instruction register = reset value 0x02");
    assert!(m.verif_micro_address() == 0, "micro-sequencer at 0");
    assert!(m.verif_pending_register_write().is_none(), "pending register write");
    assert!(!m.verif_pending_flag_write(), "pending flag write");
    assert!(!m.verif_pending_edge_interrupt(), "pending key interrupt");
    assert!(!m.verif_pending_wait(), "pending memory wait");
    let l = m.verif_alu_latch();
    assert!(l.output() == 0 && !l.carry_out() && !l.zero_out() && !l.negative_out(), "ALU latch");
    assert!(m.verif_last_bus_read() == 0, "bus latch");
    assert!(m.state() == State::Running, "Running after reset");
    let q = m.bus().verif_parts();
    assert!(q.output_reg[0] == 0 && q.output_reg[1] == 0, "output registers");
    assert!(q.micr == 0, "MICR");
    assert!(q.ucr == 0, "UCR");
}

#[cfg_attr(kani, kani::proof)]
pub fn reset_cpu() {
    let mut m = any_machine();
    let pre = m.clone();
    m.cpu_reset();
    assert_cpu_power_on(&m);
    // untouched: RAM, input registers, timer, board, limits, step mode
    assert!(same_ram(m.bus(), pre.bus()), "RAM untouched");
    let p = pre.bus().verif_parts();
    let q = m.bus().verif_parts();
    assert!(q.input_reg[0] == p.input_reg[0] && q.input_reg[1] == p.input_reg[1], "input regs");
    assert!(q.input_reg[2] == p.input_reg[2] && q.input_reg[3] == p.input_reg[3], "input regs");
    assert!(
        q.timer_enabled == p.timer_enabled
            && q.timer_div1 == p.timer_div1
            && q.timer_div2 == p.timer_div2
            && q.timer_div3 == p.timer_div3,
        "timer settings untouched"
    );
    assert!(same_board(m.bus().board(), pre.bus().board()), "board untouched");
    assert!(same_limits(&m, &pre), "limits untouched");
    assert!(m.step_mode() == pre.step_mode(), "step mode untouched");
    kani::cover!(pre.state() == State::ErrorStopped, "from error stop");
}

#[cfg_attr(kani, kani::proof)]
pub fn reset_master() {
    let mut m = any_machine();
    let pre = m.clone();
    m.master_reset();
    assert_cpu_power_on(&m);
    let q = m.bus().verif_parts();
    assert!(q.input_reg[0] == 0 && q.input_reg[1] == 0 && q.input_reg[2] == 0 && q.input_reg[3] == 0, "input regs cleared");
    assert!(!q.timer_enabled && q.timer_div1 == 0 && q.timer_div2 == 0 && q.timer_div3 == 0, "timer cleared");
    // board outputs cleared
    let b = m.bus().board().verif_parts();
    let pb = pre.bus().board().verif_parts();
    assert!(b.digital_output1 == 0 && b.digital_output2 == 0, "digital output ports");
    assert!(b.analog_outputs[0].to_bits() == 0 && b.analog_outputs[1].to_bits() == 0, "analog outputs 0.0 V");
    assert!(b.daicr == 0, "interrupt control");
    assert!(b.fan_rpm == 0, "fan");
    assert!(!b.uio_dir[0] && !b.uio_dir[1] && !b.uio_dir[2], "UIO directions");
    // never: RAM, physical inputs
    assert!(same_ram(m.bus(), pre.bus()), "RAM untouched");
    assert!(b.digital_input1 == pb.digital_input1, "digital input port");
    assert!(b.temp.to_bits() == pb.temp.to_bits(), "temperature");
    assert!(b.analog_inputs[0].to_bits() == pb.analog_inputs[0].to_bits(), "I1");
    assert!(b.analog_inputs[1].to_bits() == pb.analog_inputs[1].to_bits(), "I2");
    assert!(b.dasr & 0xC7 == pb.dasr & 0xC7, "jumpers and UIO pin levels");
    assert!(same_limits(&m, &pre), "limits untouched");
    assert!(m.step_mode() == pre.step_mode(), "step mode untouched");
    kani::cover!(pb.digital_output1 != 0, "board had output");
}

fn mk_program(img: &[u8; 16], len: usize, ss: Stacksize, ps: Programsize) -> ByteCode {
    let mut v = Vec::with_capacity(16);
    let mut i = 0;
    while i < len {
        v.push(img[i]);
        i += 1;
    }
    ByteCode {
        lines: vec![(Line::Empty(None), v)],
        stacksize: ss,
        programsize: ps,
    }
}

/// `len` is concrete per harness (every loop of the loader then has a concrete trip count, also
/// loops a refactoring may add), the image bytes and everything else are symbolic.
fn load_check(len: usize) {
    let mut m = any_machine();
    let pre = m.clone();
    let img: [u8; 16] = kani::any();
    let ss_notset: bool = kani::any();
    let ss = if ss_notset { Stacksize::NotSet } else { any_stacksize() };
    let ps = any_programsize(true);
    m.load(mk_program(&img, len, ss, ps));
    // RAM = image followed by zeros (one universally quantified cell)
    let i = any_ram_index();
    let expect = if i < len { img[i] } else { 0 };
    assert!(m.bus().memory()[i] == expect, "RAM = image ++ zeros");
    // limits
    let want_ss = if ss == Stacksize::NotSet { pre.stacksize() } else { ss };
    assert!(m.stacksize() == want_ss, "stack size applied");
    let want_ps = match ps {
        Programsize::Size(n) => Programsize::Size(n),
        Programsize::Auto => Programsize::Size(len as u8),
        Programsize::NotSet => pre.programsize(),
    };
    assert!(m.programsize() == want_ps, "program size applied");
    assert!(m.step_mode() == pre.step_mode(), "step mode untouched");
    // history independence: everything a RAM/FC-FF program can depend on equals a new machine
    let mut fresh = Machine::new(MachineConfig::default());
    fresh.load(mk_program(&img, len, ss, ps));
    assert!(same_core(&m, &fresh), "CPU state as on a new machine");
    assert!(m.bus().memory()[i] == fresh.bus().memory()[i], "RAM as on a new machine");
    let p = m.bus().verif_parts();
    let q = fresh.bus().verif_parts();
    assert!(p.input_reg[0] == q.input_reg[0] && p.input_reg[1] == q.input_reg[1], "input regs as new");
    assert!(p.input_reg[2] == q.input_reg[2] && p.input_reg[3] == q.input_reg[3], "input regs as new");
    assert!(p.output_reg[0] == q.output_reg[0] && p.output_reg[1] == q.output_reg[1], "output regs as new");
    assert!(p.micr == q.micr && p.ucr == q.ucr, "MICR/UCR as new");
    assert!(
        p.timer_enabled == q.timer_enabled && p.timer_div1 == q.timer_div1 && p.timer_div2 == q.timer_div2 && p.timer_div3 == q.timer_div3,
        "timer as new"
    );
    if ss != Stacksize::NotSet {
        assert!(m.stacksize() == fresh.stacksize(), "stack limit as new");
    }
    if ps != Programsize::NotSet {
        assert!(m.programsize() == fresh.programsize(), "program limit as new");
    }
    // board outputs are cleared by the master reset inside load
    let b = m.bus().board().verif_parts();
    assert!(b.digital_output1 == 0 && b.digital_output2 == 0 && b.daicr == 0 && b.fan_rpm == 0, "board outputs cleared by load");
    assert!(!b.uio_dir[0] && !b.uio_dir[1] && !b.uio_dir[2], "UIO directions cleared by load");
    assert!(m.stacksize() != Stacksize::NotSet || pre.stacksize() == Stacksize::NotSet, "L0: load never stores NotSet");
    kani::cover!(true, "reached");
}

#[cfg_attr(kani, kani::proof)]
#[cfg_attr(kani, kani::unwind(242))]
pub fn load_image_n0() {
    load_check(0)
}

#[cfg_attr(kani, kani::proof)]
#[cfg_attr(kani, kani::unwind(242))]
pub fn load_image_n1() {
    load_check(1)
}

#[cfg_attr(kani, kani::proof)]
#[cfg_attr(kani, kani::unwind(242))]
pub fn load_image_n3() {
    load_check(3)
}

#[cfg_attr(kani, kani::proof)]
#[cfg_attr(kani, kani::unwind(242))]
pub fn load_image_n8() {
    load_check(8)
}

#[cfg_attr(kani, kani::proof)]
#[cfg_attr(kani, kani::unwind(242))]
pub fn load_image_n16() {
    load_check(16)
}

/// Light version of the RAM clause of `load`: only the 240 RAM bytes are arbitrary (the rest of the
/// machine is as created), image length concrete, image bytes and limits symbolic.
fn load_ram_check(len: usize) {
    let mut m = Machine::new(MachineConfig::default());
    let ram: [u8; 0xF0] = kani::any();
    *m.raw_mut().bus_mut().memory_mut() = ram;
    let img: [u8; 16] = kani::any();
    let ss = any_stacksize();
    let ps = any_programsize(false);
    m.load(mk_program(&img, len, ss, ps));
    let i = any_ram_index();
    let expect = if i < len { img[i] } else { 0 };
    assert!(m.bus().memory()[i] == expect, "RAM = image followed by zeros, whatever it held before");
    assert!(m.stacksize() == ss, "stack size applied");
    kani::cover!(i == 0xEF, "last RAM cell");
}

#[cfg_attr(kani, kani::proof)]
#[cfg_attr(kani, kani::unwind(242))]
pub fn load_ram_n0() {
    load_ram_check(0)
}

#[cfg_attr(kani, kani::proof)]
#[cfg_attr(kani, kani::unwind(242))]
pub fn load_ram_n2() {
    load_ram_check(2)
}

#[cfg_attr(kani, kani::proof)]
#[cfg_attr(kani, kani::unwind(242))]
pub fn load_ram_n16() {
    load_ram_check(16)
}

/// A program without any line (e.g. a source file consisting of the header only... every line of
/// which is empty produces empty byte vectors; here the line list itself is empty): RAM must be
/// all zeros afterwards, whatever it held before.
#[cfg_attr(kani, kani::proof)]
#[cfg_attr(kani, kani::unwind(242))]
pub fn load_ram_empty_program() {
    let mut m = Machine::new(MachineConfig::default());
    let ram: [u8; 0xF0] = kani::any();
    *m.raw_mut().bus_mut().memory_mut() = ram;
    let ss = any_stacksize();
    m.load(ByteCode {
        lines: vec![],
        stacksize: ss,
        programsize: Programsize::Auto,
    });
    let i = any_ram_index();
    assert!(m.bus().memory()[i] == 0, "RAM all zeros after loading an empty program");
    assert!(m.programsize() == Programsize::Size(0), "program size of an empty image");
    kani::cover!(i == 0xEF, "last RAM cell");
}
