//! Harness crate for solver-based checking of /repo (MalteT/2a-emulator).
//!
//! Every harness is an ordinary `pub fn` that is a `#[kani::proof]` under Kani
//! and a natively runnable function (fed by `kani_shim`) otherwise, so the
//! counterexample replay executes the *same* assertions against the real build.
#![allow(dead_code, unused_imports, unused_macros, clippy::all)]

#[cfg(not(kani))]
#[path = "kani_shim.rs"]
pub mod kani;
#[cfg(kani)]
pub use ::kani;

pub mod refs;
pub mod isa_ref;

pub mod st;

pub mod h_alu;
pub mod h_bus;
pub mod h_board;
pub mod h_reset;
pub mod h_edge;
pub mod h_panic;
pub mod h_seq;
pub mod h_path;
pub mod h_tr;
pub mod h_load;
pub mod h_asm;

#[path = "gen/mod.rs"]
pub mod gen;

#[cfg(not(kani))]
#[path = "gen/registry.rs"]
pub mod registry;
