//! One-edge lemmas from a fully symbolic machine state (DESIGN 2.2).
//! Every lemma quantifies over all states satisfying Inv, a superset of the reachable
//! states, so it covers histories of any length.
use crate::kani;
use crate::st::*;
use emulator_2a_lib::machine::{MicroprogramRam, RawMachine, RegisterNumber, State, Word};
use emulator_2a_lib::parser::{Programsize, Stacksize};

// ---- reference supervision rule (C05), written from the property text -----------------

/// Forbidden band: the 14 guard bytes below a stack area of `size` bytes that ends at 0xEF.
pub fn ref_sp_ok(ss: Stacksize, sp: u8) -> bool {
    if sp >= 0xF0 {
        return false;
    }
    let size: u16 = match ss {
        Stacksize::_0 => return true,
        Stacksize::_16 => 16,
        Stacksize::_32 => 32,
        Stacksize::_48 => 48,
        Stacksize::_64 => 64,
        Stacksize::NotSet => return true, // excluded by Inv
    };
    let lo = 0xE1 - size; // first forbidden address
    let hi = 0xEE - size; // last forbidden address
    !((sp as u16) >= lo && (sp as u16) <= hi)
}

pub fn ref_pc_ok(ps: Programsize, pc: u8) -> bool {
    match ps {
        Programsize::Size(n) => pc <= n,
        _ => pc == 0, // nothing loaded: PC can only be 0
    }
}

fn word_of(a: usize) -> Word {
    MicroprogramRam::CONTENT[a]
}

// ---- L-halt: a halted machine is frozen ------------------------------------------------

#[cfg_attr(kani, kani::proof)]
pub fn halted_edge_is_identity() {
    let mut m = any_raw();
    kani::assume(m.state() != State::Running);
    let pre = m.clone();
    m.trigger_clock_edge();
    assert!(same_core(&m, &pre), "core frozen");
    assert!(same_limits(&m, &pre), "limits frozen");
    assert!(same_bus_regs(m.bus(), pre.bus()), "bus registers frozen");
    assert!(same_board(m.bus().board(), pre.bus().board()), "board frozen");
    let i = any_ram_index();
    assert!(m.bus().memory()[i] == pre.bus().memory()[i], "RAM frozen");
    kani::cover!(pre.state() == State::Stopped, "stopped");
    kani::cover!(pre.state() == State::ErrorStopped, "error stopped");
}

/// Which calls leave a halt state: continue only from Stopped; key interrupt and input
/// setters never change `state`.
#[cfg_attr(kani, kani::proof)]
pub fn halt_exits() {
    let mut m = any_raw();
    let pre = m.clone();
    let op: u8 = kani::any();
    kani::assume(op < 4);
    match op {
        0 => m.trigger_key_continue(),
        1 => m.trigger_key_edge_interrupt(),
        2 => m.bus_mut().input_ff(kani::any()),
        _ => m.bus_mut().board_mut().set_jumper1(kani::any()),
    }
    let want = if op == 0 && pre.state() == State::Stopped { State::Running } else { pre.state() };
    assert!(m.state() == want, "only continue leaves Stopped, nothing leaves ErrorStopped");
    if op == 0 {
        // continue resumes with the next instruction: nothing but `state` changes
        let mut back = m.clone();
        back.verif_set_state(pre.state());
        assert!(same_core(&back, &pre) && same_bus_regs(back.bus(), pre.bus()), "continue changes only the state");
    }
    kani::cover!(op == 0 && pre.state() == State::Stopped, "continue from stop");
}

// ---- L-wait: a pending memory wait swallows exactly one edge ----------------------------

#[cfg_attr(kani, kani::proof)]
pub fn wait_edge_only_clears_wait() {
    let mut m = any_raw();
    kani::assume(m.state() == State::Running && m.verif_pending_wait());
    let mut pre = m.clone();
    m.trigger_clock_edge();
    assert!(!m.verif_pending_wait(), "wait consumed");
    pre.verif_set_pending_wait(false);
    assert!(same_core(&m, &pre), "nothing else changes (core)");
    assert!(same_limits(&m, &pre), "limits");
    assert!(same_bus_regs(m.bus(), pre.bus()), "bus registers");
    assert!(same_board(m.bus().board(), pre.bus().board()), "board");
    let i = any_ram_index();
    assert!(m.bus().memory()[i] == pre.bus().memory()[i], "RAM");
    kani::cover!(true, "reached");
}

// ---- reference commit (what the start of an edge does to the registers) ----------------

/// Registers after the commit phase, from the pre-state alone.
pub fn ref_commit(pre: &RawMachine) -> [u8; 8] {
    let mut r = *pre.registers().content();
    let l = pre.verif_alu_latch();
    if pre.verif_pending_flag_write() {
        // C, Z, N from the latch; IE and the upper bits are kept
        r[4] = (r[4] & 0xF8) | (l.carry_out() as u8) | ((l.zero_out() as u8) << 1) | ((l.negative_out() as u8) << 2);
    }
    if let Some(reg) = pre.verif_pending_register_write() {
        r[reg as usize] = l.output();
    }
    r
}

fn running_nowait() -> RawMachine {
    let m = any_raw();
    kani::assume(m.state() == State::Running && !m.verif_pending_wait());
    m
}

/// L-commit + L-stop (C05): registers change only by the pending commit, and the state
/// after the edge is exactly what the supervision rule says.
#[cfg_attr(kani, kani::proof)]
pub fn edge_commit_and_supervision() {
    let mut m = running_nowait();
    let pre = m.clone();
    m.trigger_clock_edge();
    let want = ref_commit(&pre);
    let got = *m.registers().content();
    let mut i = 0;
    while i < 8 {
        assert!(got[i] == want[i], "registers change only by the pending commit");
        i += 1;
    }
    let commit = pre.verif_pending_register_write().is_some();
    let err_commit = commit && !(ref_sp_ok(pre.stacksize(), want[5]) && ref_pc_ok(pre.programsize(), want[3]));
    let w = word_of(pre.verif_micro_address());
    let ir_load = w.contains(Word::MAC2) && w.contains(Word::MAC0) && !w.contains(Word::MAC1);
    let byte = pre.verif_last_bus_read();
    // "opcode fetched" is unambiguous for the instruction fetch words (MAC3); whether a SECOND byte 0x00/0x01
    // of a two-byte instruction halts the machine is not fixed by the property: left unconstrained
    kani::assume(!(ir_load && !w.contains(Word::MAC3) && byte <= 0x01));
    let err_ir = ir_load && byte == 0x00;
    let stop_ir = ir_load && byte == 0x01;
    let want_state = if err_commit || err_ir {
        State::ErrorStopped
    } else if stop_ir {
        State::Stopped
    } else {
        State::Running
    };
    assert!(m.state() == want_state, "state after the edge follows the supervision rule exactly");
    assert!(same_limits(&m, &pre), "limits are not changed by an edge");
    kani::cover!(err_commit && stop_ir, "illegal commit and STOP fetched in the same edge");
    kani::cover!(err_commit && !stop_ir, "error by commit");
    kani::cover!(want_state == State::Running && commit, "legal commit");
}

/// Same lemma with the one known overlap (illegal commit + STOP byte in the same edge) excluded.
#[cfg_attr(kani, kani::proof)]
pub fn edge_commit_and_supervision_residual() {
    let mut m = running_nowait();
    let pre = m.clone();
    m.trigger_clock_edge();
    let want = ref_commit(&pre);
    let got = *m.registers().content();
    let mut i = 0;
    while i < 8 {
        assert!(got[i] == want[i], "registers change only by the pending commit");
        i += 1;
    }
    let commit = pre.verif_pending_register_write().is_some();
    let err_commit = commit && !(ref_sp_ok(pre.stacksize(), want[5]) && ref_pc_ok(pre.programsize(), want[3]));
    let w = word_of(pre.verif_micro_address());
    let ir_load = w.contains(Word::MAC2) && w.contains(Word::MAC0) && !w.contains(Word::MAC1);
    let byte = pre.verif_last_bus_read();
    kani::assume(!(err_commit && ir_load && byte == 0x01));
    kani::assume(!(ir_load && !w.contains(Word::MAC3) && byte <= 0x01));
    let want_state = if err_commit || (ir_load && byte == 0) {
        State::ErrorStopped
    } else if ir_load && byte == 1 {
        State::Stopped
    } else {
        State::Running
    };
    assert!(m.state() == want_state, "state after the edge follows the supervision rule exactly");
    kani::cover!(err_commit, "error by commit");
}

/// Inductive invariant behind "while Running, SP and PC are legal": if it holds before any
/// of {edge, continue, cpu reset, key interrupt}, it holds afterwards.
#[cfg_attr(kani, kani::proof)]
pub fn running_implies_legal_sp_pc_is_inductive() {
    let mut m = any_raw();
    kani::assume(!m.verif_pending_wait());
    let ok = |m: &RawMachine| {
        let r = m.registers().content();
        ref_sp_ok(m.stacksize(), r[5]) && ref_pc_ok(m.programsize(), r[3])
    };
    // invariant: a machine that is Running or regularly Stopped has legal SP and PC
    kani::assume(m.state() == State::ErrorStopped || ok(&m));
    let op: u8 = kani::any();
    kani::assume(op < 4);
    match op {
        0 => m.trigger_clock_edge(),
        1 => m.trigger_key_continue(),
        2 => m.cpu_reset(),
        _ => m.trigger_key_edge_interrupt(),
    }
    assert!(m.state() == State::ErrorStopped || ok(&m), "Running/Stopped => SP and PC legal");
    kani::cover!(op == 0 && m.state() == State::Stopped, "stop edge");
}

/// L-wait clause + bus side of an edge (C15, frame for C01): after an active edge,
/// `wait` is pending iff the new word accessed an address <= 0xEF; the bus is written
/// only by BUSWR at the A-register address with the new ALU output.
#[cfg_attr(kani, kani::proof)]
pub fn edge_wait_iff_ram_access() {
    let mut m = running_nowait();
    let pre = m.clone();
    m.trigger_clock_edge();
    let w = word_of(m.verif_micro_address());
    let ir = m.verif_ir();
    let areg = if w.contains(Word::MRGAA3) {
        (ir & 3) as usize
    } else {
        ((w.contains(Word::MRGAA2) as usize) << 2) | ((w.contains(Word::MRGAA1) as usize) << 1) | (w.contains(Word::MRGAA0) as usize)
    };
    let aval = m.registers().content()[areg];
    let access = w.contains(Word::BUSEN) || w.contains(Word::BUSWR);
    assert!(m.verif_pending_wait() == (access && aval <= 0xEF), "one wait per RAM access, none for I/O");
    // bus frame (fetching the RETI opcode 0x2C as a FIRST byte clears the two key bits of MISR first)
    let mut expect = pre.bus().clone();
    let pw = word_of(pre.verif_micro_address());
    let ir_load = pw.contains(Word::MAC2) && pw.contains(Word::MAC0) && !pw.contains(Word::MAC1);
    if ir_load && pw.contains(Word::MAC3) && pre.verif_last_bus_read() == 0x2C {
        let mut parts = expect.verif_parts();
        parts.misr &= !0x11;
        expect.verif_assemble(parts);
    }
    let at_read = expect.clone();
    if w.contains(Word::BUSWR) {
        expect.write(aval, m.verif_alu_latch().output());
    }
    let p = expect.verif_parts();
    let q = m.bus().verif_parts();
    assert!(p.output_reg[0] == q.output_reg[0] && p.output_reg[1] == q.output_reg[1], "output registers only by BUSWR");
    assert!(same_bus_regs(&expect, m.bus()), "bus registers only by BUSWR");
    let i = any_ram_index();
    assert!(m.bus().memory()[i] == expect.memory()[i], "RAM only by BUSWR at the A address");
    assert!(same_board(m.bus().board(), expect.board()), "board only by BUSWR");
    if w.contains(Word::BUSEN) {
        // (what the latch holds after a word that does not read is an implementation detail)
        assert!(m.verif_last_bus_read() == at_read.read(aval), "bus latch = value read (memory as before the edge's write)");
    }
    kani::cover!(access && aval == 0xEF, "RAM top");
    kani::cover!(access && aval == 0xF0, "first I/O address");
}

/// L-iff (C04): the pending-edge flip-flop over one active edge.
#[cfg_attr(kani, kani::proof)]
pub fn edge_interrupt_flipflop() {
    let mut m = running_nowait();
    let pre = m.clone();
    m.trigger_clock_edge();
    let w = word_of(pre.verif_micro_address());
    let samples = w.contains(Word::MAC1) && w.contains(Word::MAC0) && w.contains(Word::NA0);
    let want = pre.verif_pending_edge_interrupt() && !samples;
    assert!(m.verif_pending_edge_interrupt() == want, "flip-flop kept unless the current word samples it; never set by an edge");
    assert!(!m.verif_pending_level_interrupt(), "Inv: no level interrupt source exists");
    kani::cover!(pre.verif_pending_edge_interrupt() && samples, "sampled");
}

/// The key: sets the flip-flop iff the key-edge enable bit (MICR bit 0) is set; touches nothing
/// else but two MISR status bits.
#[cfg_attr(kani, kani::proof)]
pub fn key_interrupt_sets_flipflop_iff_enabled() {
    let mut m = any_raw();
    let pre = m.clone();
    m.trigger_key_edge_interrupt();
    let en = pre.bus().verif_parts().micr & 1 == 1;
    assert!(m.verif_pending_edge_interrupt() == (pre.verif_pending_edge_interrupt() || en), "flip-flop set iff enabled");
    let mut back = m.clone();
    back.verif_set_pending_edge_interrupt(pre.verif_pending_edge_interrupt());
    assert!(same_core(&back, &pre), "nothing else in the CPU changes");
    let mut q = m.bus().verif_parts();
    let p = pre.bus().verif_parts();
    assert!(q.misr & 0xEE == p.misr & 0xEE, "only the two key bits of MISR may change");
    q.misr = p.misr;
    let mut b2 = m.bus().clone();
    b2.verif_assemble(q);
    assert!(same_bus_regs(&b2, pre.bus()) && same_board(b2.board(), pre.bus().board()), "bus frame");
    let i = any_ram_index();
    assert!(m.bus().memory()[i] == pre.bus().memory()[i], "RAM frame");
    kani::cover!(en && !pre.verif_pending_edge_interrupt(), "newly set");
}

/// L-panic / L0 (C13): no state satisfying Inv can make an edge panic, overflow or index out
/// of bounds (Kani's default checks are the assertion), and Inv is preserved.
#[cfg_attr(kani, kani::proof)]
pub fn edge_never_panics_and_keeps_inv() {
    let mut m = any_raw();
    m.trigger_clock_edge();
    assert!(m.verif_micro_address() < 512, "Inv: micro address stays 9 bit");
    assert!(m.stacksize() != Stacksize::NotSet, "Inv: stack size stays set");
    assert!(!m.verif_pending_level_interrupt(), "Inv: no level interrupt");
    // the machine can be read afterwards
    let _ = (m.state(), m.is_instruction_done(), m.is_stackpointer_valid(), m.is_program_counter_valid());
    kani::cover!(m.state() == State::Running, "still running");
}

/// The effect of an edge depends on the current micro address only through the control word
/// stored there: two machines that differ only in the address, with identical words, are
/// identical after the edge.  (Justifies using one representative of the 15 identical fetch
/// words and of the 13 identical 'int:' words in the path harnesses.)
#[cfg_attr(kani, kani::proof)]
pub fn edge_depends_on_address_only_through_word() {
    let mut a = running_nowait();
    let mut b = a.clone();
    let other: usize = kani::any();
    kani::assume(other < 512);
    kani::assume(word_of(other).bits() == word_of(a.verif_micro_address()).bits());
    b.verif_set_micro_address(other);
    a.trigger_clock_edge();
    b.trigger_clock_edge();
    assert!(same_core(&a, &b), "same word => same successor state");
    assert!(same_bus_regs(a.bus(), b.bus()) && same_board(a.bus().board(), b.bus().board()), "same bus effect");
    let i = any_ram_index();
    assert!(a.bus().memory()[i] == b.bus().memory()[i], "same RAM effect");
    kani::cover!(other != 6 && word_of(other).bits() == word_of(6).bits(), "another fetch word");
}
