//! Reference models (oracles), written from the documentation, not from the code.

/// Reference ALU: (result, carry, zero, negative) for function `f` (0..16).
/// Written from the documented function list in `alu.rs` (doc comments) and the
/// property text C08: 9-bit arithmetic.
pub fn alu(f: u8, a: u8, b: u8, cin: bool) -> (u8, bool, bool, bool) {
    let a9 = a as u16;
    let b9 = b as u16;
    let c = cin as u16;
    let (out, carry): (u8, bool) = match f & 15 {
        // ADDH: add, carry-out = carry-in OR overflow ("keep the carry_in or set it")
        0 => { let s = a9 + b9; (s as u8, cin || s > 255) }
        // A: pass A, carry cleared
        1 => (a, false),
        // NOR
        2 => (!(a | b), false),
        // ZERO
        3 => (0, false),
        // ADD
        4 => { let s = a9 + b9; (s as u8, s > 255) }
        // ADDS: A + B + 1, carry inverted
        5 => { let s = a9 + b9 + 1; (s as u8, !(s > 255)) }
        // ADC
        6 => { let s = a9 + b9 + c; (s as u8, s > 255) }
        // ADCS: A + B + !cin, carry inverted
        7 => { let s = a9 + b9 + (1 - c); (s as u8, !(s > 255)) }
        // LSR
        8 => (a >> 1, a & 1 == 1),
        // RR: bit 0 rotates into bit 7
        9 => ((a >> 1) | ((a & 1) << 7), a & 1 == 1),
        // RRC: carry-in into bit 7
        10 => ((a >> 1) | ((cin as u8) << 7), a & 1 == 1),
        // ASR: bit 7 kept
        11 => ((a >> 1) | (a & 0x80), a & 1 == 1),
        // B: clear carry
        12 => (b, false),
        // SETC
        13 => (b, true),
        // BH: hold
        14 => (b, cin),
        // INVC
        _ => (b, !cin),
    };
    (out, carry, out == 0, out & 0x80 != 0)
}
