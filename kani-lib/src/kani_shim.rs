//! Native stand-in for the `kani` crate: lets every harness run as an ordinary
//! function against the real build, fed with the concrete values the solver
//! produced (`--concrete-playback=print`).  One queue entry per primitive
//! `any()`, in call order, little endian — exactly Kani's playback format.
use std::cell::RefCell;
use std::collections::VecDeque;

thread_local! {
    static QUEUE: RefCell<VecDeque<Vec<u8>>> = RefCell::new(VecDeque::new());
}

pub const ASSUME_FAILED: &str = "VERIF-ASSUME-FAILED";
pub const UNDERFLOW: &str = "VERIF-VALUES-EXHAUSTED";

pub fn load(vals: Vec<Vec<u8>>) {
    QUEUE.with(|q| *q.borrow_mut() = vals.into_iter().collect());
}
pub fn remaining() -> usize {
    QUEUE.with(|q| q.borrow().len())
}
fn pop(n: usize) -> Vec<u8> {
    let v = QUEUE.with(|q| q.borrow_mut().pop_front());
    match v {
        Some(v) if v.len() == n => v,
        Some(v) => panic!("{}: expected {} bytes, got {}", UNDERFLOW, n, v.len()),
        None => panic!("{}", UNDERFLOW),
    }
}

pub trait Arbitrary: Sized {
    fn any() -> Self;
}
macro_rules! prim {
    ($($t:ty),*) => {$(
        impl Arbitrary for $t {
            fn any() -> Self {
                let v = pop(std::mem::size_of::<$t>());
                let mut b = [0u8; std::mem::size_of::<$t>()];
                b.copy_from_slice(&v);
                <$t>::from_le_bytes(b)
            }
        }
    )*};
}
prim!(u8, u16, u32, u64, usize, i8, i16, i32, i64);
impl Arbitrary for bool {
    fn any() -> Self {
        pop(1)[0] & 1 == 1
    }
}
impl<T: Arbitrary, const N: usize> Arbitrary for [T; N] {
    fn any() -> Self {
        std::array::from_fn(|_| T::any())
    }
}
pub fn any<T: Arbitrary>() -> T {
    T::any()
}
pub fn assume(c: bool) {
    if !c {
        panic!("{}", ASSUME_FAILED);
    }
}
#[macro_export]
macro_rules! __verif_cover {
    ($($t:tt)*) => {};
}
pub use crate::__verif_cover as cover;
