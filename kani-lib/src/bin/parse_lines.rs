//! Native helper for C03: for every line on stdin print the real parser's verdict for the
//! program "#! mrasm\n<line>" (or, with --header, for "<line>" alone as the first line):
//!   A = syntax accepted (Ok or only UndefinedLabels), R = InvalidSyntax, P = panic.
#[cfg(kani)]
fn main() {}

#[cfg(not(kani))]
fn main() {
    use emulator_2a_lib::parser::{AsmParser, ParserError};
    use std::io::BufRead;
    let header = std::env::args().any(|a| a == "--header");
    std::panic::set_hook(Box::new(|_| {}));
    let stdin = std::io::stdin();
    for line in stdin.lock().lines() {
        let line = line.expect("utf8 line");
        let text = if header { line.clone() } else { format!("#! mrasm\n{}", line) };
        let r = std::panic::catch_unwind(|| AsmParser::parse(&text).map(|_| ()));
        let v = match r {
            Err(_) => "P",
            Ok(Ok(())) => "A",
            Ok(Err(ParserError::UndefinedLabels(_))) => "A",
            Ok(Err(ParserError::TooManyLabels)) => "A",
            Ok(Err(ParserError::InvalidSyntax(_))) => "R",
        };
        println!("{}", v);
    }
}
