//! Native replay of a solver counterexample: `replay <harness> <values.json>`
//! values.json = [[b0,b1,..],[..],..] (one entry per primitive `kani::any()`).
//! Exit 0 + "REPRODUCED: <msg>" if the harness's assertion (or a panic in the
//! real code) fires natively; "NOT-REPRODUCED" otherwise.
#[cfg(kani)]
fn main() {}

#[cfg(not(kani))]
use std::panic;

#[cfg(not(kani))]
fn parse(s: &str) -> Vec<Vec<u8>> {
    // minimal JSON [[..],[..]] parser (digits, commas, brackets only)
    let mut out = vec![];
    let mut cur: Option<Vec<u8>> = None;
    let mut num: Option<u32> = None;
    let mut depth = 0;
    for ch in s.chars() {
        match ch {
            '[' => {
                depth += 1;
                if depth == 2 {
                    cur = Some(vec![]);
                }
            }
            ']' => {
                if let (Some(n), Some(c)) = (num.take(), cur.as_mut()) {
                    c.push(n as u8);
                }
                if depth == 2 {
                    out.push(cur.take().unwrap());
                }
                depth -= 1;
            }
            ',' => {
                if let (Some(n), Some(c)) = (num.take(), cur.as_mut()) {
                    c.push(n as u8);
                }
            }
            d if d.is_ascii_digit() => num = Some(num.unwrap_or(0) * 10 + d.to_digit(10).unwrap()),
            _ => {}
        }
    }
    out
}

#[cfg(not(kani))]
fn main() {
    let args: Vec<String> = std::env::args().collect();
    if args.len() == 2 && args[1] == "--list" {
        for (n, _) in kani_lib::registry::REGISTRY {
            println!("{}", n);
        }
        return;
    }
    if args.len() == 3 && args[1] == "--program" {
        // public path: source text -> AsmParser::parse -> Translator::compile -> Machine::load
        let text = std::fs::read_to_string(&args[2]).expect("program file");
        panic::set_hook(Box::new(|_| {}));
        let r = panic::catch_unwind(|| {
            use emulator_2a_lib::{compiler::Translator, machine::{Machine, MachineConfig}, parser::AsmParser};
            match AsmParser::parse(&text) {
                Err(e) => format!("REJECTED by the parser: {:?}", e).replace('\n', " "),
                Ok(asm) => {
                    let bc = Translator::compile(&asm);
                    let n = bc.bytes().count();
                    let mut m = Machine::new(MachineConfig::default());
                    m.load(bc);
                    format!("OK: accepted, compiled to {} bytes and loaded", n)
                }
            }
        });
        match r {
            Ok(s) => println!("{}", s),
            Err(e) => {
                let msg = e.downcast_ref::<&str>().map(|s| s.to_string()).or_else(|| e.downcast_ref::<String>().cloned()).unwrap_or_default();
                println!("PANIC: accepted by the parser, then panicked: {}", msg.replace('\n', " "));
            }
        }
        return;
    }
    if args.len() == 4 && args[1] == "--asm-step" {
        // does one assembly step return when the byte at PC is args[2]? (run with an external timeout)
        use emulator_2a_lib::machine::{Machine, MachineConfig, StepMode};
        let byte: u8 = args[2].parse().expect("byte");
        let max: u64 = args[3].parse().expect("max edges");
        let mut m = Machine::new(MachineConfig::default());
        m.raw_mut().bus_mut().memory_mut()[0] = byte;
        m.raw_mut().set_programsize(emulator_2a_lib::parser::Programsize::Size(255));
        // reference: clock stepping reaches a boundary within `max` edges?
        let mut r = m.clone();
        let mut left = !r.is_instruction_done();
        let mut n = 0u64;
        while n < max {
            if r.state() != emulator_2a_lib::machine::State::Running { break; }
            if left && r.is_instruction_done() { break; }
            r.raw_mut().trigger_clock_edge();
            n += 1;
            if !r.is_instruction_done() { left = true; }
        }
        // second instruction (the byte itself is executed by the second step after reset)
        let mut k = 0u64;
        left = !r.is_instruction_done();
        while k < max {
            if r.state() != emulator_2a_lib::machine::State::Running { break; }
            if left && r.is_instruction_done() { break; }
            r.raw_mut().trigger_clock_edge();
            k += 1;
            if !r.is_instruction_done() { left = true; }
        }
        if k >= max {
            println!("NO-BOUNDARY: opcode {:#04x}: no instruction boundary within {} clock edges (assembly step would not return)", byte, max);
        } else {
            m.set_step_mode(StepMode::Assembly);
            m.trigger_key_clock();
            m.trigger_key_clock();
            println!("RETURNS: opcode {:#04x}: boundary after {} edges; assembly step returned, equal to clock stepping: {}", byte, k, m.raw_mut().clone() == r.raw_mut().clone());
        }
        return;
    }
    if args.len() != 3 {
        eprintln!("usage: replay <harness> <values.json> | --list");
        std::process::exit(3);
    }
    let f = kani_lib::registry::REGISTRY
        .iter()
        .find(|(n, _)| *n == args[1])
        .map(|(_, f)| *f)
        .unwrap_or_else(|| {
            eprintln!("unknown harness {}", args[1]);
            std::process::exit(3)
        });
    let vals = parse(&std::fs::read_to_string(&args[2]).expect("values file"));
    kani_lib::kani::load(vals);
    panic::set_hook(Box::new(|_| {}));
    let r = panic::catch_unwind(f);
    match r {
        Ok(()) => println!("NOT-REPRODUCED: harness ran to completion, {} values left", kani_lib::kani::remaining()),
        Err(e) => {
            let msg = if let Some(s) = e.downcast_ref::<&str>() {
                s.to_string()
            } else if let Some(s) = e.downcast_ref::<String>() {
                s.clone()
            } else {
                "panic (non-string payload)".to_string()
            };
            if msg.contains(kani_lib::kani::ASSUME_FAILED) {
                println!("ASSUME-FAILED: values violate a harness assumption");
            } else if msg.contains(kani_lib::kani::UNDERFLOW) {
                println!("VALUES-MISMATCH: {}", msg);
            } else {
                println!("REPRODUCED: {}", msg.replace('\n', " "));
            }
        }
    }
}
