//! Native replay of a solver counterexample: `replay <harness> <values.json>`
//! values.json = [[b0,b1,..],[..],..] (one entry per primitive `kani::any()`).
//! Exit 0 + "REPRODUCED: <msg>" if the harness's assertion (or a panic in the
//! real code) fires natively; "NOT-REPRODUCED" otherwise.
#[cfg(kani)]
fn main() {}

#[cfg(not(kani))]
use std::panic;

#[cfg(not(kani))]
fn parse(s: &str) -> Vec<Vec<u8>> {
    // minimal JSON [[..],[..]] parser (digits, commas, brackets only)
    let mut out = vec![];
    let mut cur: Option<Vec<u8>> = None;
    let mut num: Option<u32> = None;
    let mut depth = 0;
    for ch in s.chars() {
        match ch {
            '[' => {
                depth += 1;
                if depth == 2 {
                    cur = Some(vec![]);
                }
            }
            ']' => {
                if let (Some(n), Some(c)) = (num.take(), cur.as_mut()) {
                    c.push(n as u8);
                }
                if depth == 2 {
                    out.push(cur.take().unwrap());
                }
                depth -= 1;
            }
            ',' => {
                if let (Some(n), Some(c)) = (num.take(), cur.as_mut()) {
                    c.push(n as u8);
                }
            }
            d if d.is_ascii_digit() => num = Some(num.unwrap_or(0) * 10 + d.to_digit(10).unwrap()),
            _ => {}
        }
    }
    out
}

#[cfg(not(kani))]
fn main() {
    let args: Vec<String> = std::env::args().collect();
    if args.len() == 2 && args[1] == "--list" {
        for (n, _) in kani_lib::registry::REGISTRY {
            println!("{}", n);
        }
        return;
    }
    if args.len() != 3 {
        eprintln!("usage: replay <harness> <values.json> | --list");
        std::process::exit(3);
    }
    let f = kani_lib::registry::REGISTRY
        .iter()
        .find(|(n, _)| *n == args[1])
        .map(|(_, f)| *f)
        .unwrap_or_else(|| {
            eprintln!("unknown harness {}", args[1]);
            std::process::exit(3)
        });
    let vals = parse(&std::fs::read_to_string(&args[2]).expect("values file"));
    kani_lib::kani::load(vals);
    panic::set_hook(Box::new(|_| {}));
    let r = panic::catch_unwind(f);
    match r {
        Ok(()) => println!("NOT-REPRODUCED: harness ran to completion, {} values left", kani_lib::kani::remaining()),
        Err(e) => {
            let msg = if let Some(s) = e.downcast_ref::<&str>() {
                s.to_string()
            } else if let Some(s) = e.downcast_ref::<String>() {
                s.clone()
            } else {
                "panic (non-string payload)".to_string()
            };
            if msg.contains(kani_lib::kani::ASSUME_FAILED) {
                println!("ASSUME-FAILED: values violate a harness assumption");
            } else if msg.contains(kani_lib::kani::UNDERFLOW) {
                println!("VALUES-MISMATCH: {}", msg);
            } else {
                println!("REPRODUCED: {}", msg.replace('\n', " "));
            }
        }
    }
}
