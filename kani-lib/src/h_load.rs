//! C06: Machine::load with an image of any size (0 .. beyond 256 bytes) must not crash.
use crate::kani;
use crate::st::*;
use emulator_2a_lib::compiler::ByteCode;
use emulator_2a_lib::machine::{Machine, MachineConfig};
use emulator_2a_lib::parser::{Line, Programsize};

#[cfg_attr(kani, kani::proof)]
#[cfg_attr(kani, kani::unwind(262))]
pub fn load_any_size() {
    let len: usize = kani::any();
    kani::assume(len <= 260);
    let fill: u8 = kani::any();
    let mut v = Vec::with_capacity(260);
    let mut i = 0;
    while i < len {
        v.push(fill);
        i += 1;
    }
    let bc = ByteCode {
        lines: vec![(Line::Empty(None), v)],
        stacksize: any_stacksize(),
        programsize: Programsize::Auto,
    };
    let mut m = Machine::new(MachineConfig::default());
    m.load(bc);
    assert!(m.bus().memory()[0] == if len > 0 { fill } else { 0 }, "first byte loaded");
    kani::cover!(len == 260, "oversize image");
    kani::cover!(len == 240, "exactly full RAM");
}

/// Residual of `load_any_size` with the known finding (image longer than the 240-byte RAM) excluded.
#[cfg_attr(kani, kani::proof)]
#[cfg_attr(kani, kani::unwind(242))]
pub fn load_fits_residual() {
    let len: usize = kani::any();
    kani::assume(len <= 240);
    let fill: u8 = kani::any();
    let mut v = Vec::with_capacity(240);
    let mut i = 0;
    while i < len {
        v.push(fill);
        i += 1;
    }
    let bc = ByteCode {
        lines: vec![(Line::Empty(None), v)],
        stacksize: any_stacksize(),
        programsize: Programsize::Auto,
    };
    let mut m = Machine::new(MachineConfig::default());
    m.load(bc);
    assert!(m.bus().memory()[0] == if len > 0 { fill } else { 0 }, "first byte loaded");
    kani::cover!(len == 240, "exactly full RAM");
}

fn load_concrete(len: usize) -> Machine {
    let fill: u8 = kani::any();
    let mut v = Vec::with_capacity(260);
    let mut i = 0;
    while i < len {
        v.push(fill);
        i += 1;
    }
    let bc = ByteCode {
        lines: vec![(Line::Empty(None), v)],
        stacksize: any_stacksize(),
        programsize: Programsize::Auto,
    };
    let mut m = Machine::new(MachineConfig::default());
    m.load(bc);
    assert!(m.bus().memory()[0] == fill, "first byte loaded");
    m
}

/// Smallest image that does not fit the 240-byte RAM (known finding load.len>240).
#[cfg_attr(kani, kani::proof)]
#[cfg_attr(kani, kani::unwind(262))]
pub fn load_oversize_241() {
    let m = load_concrete(241);
    kani::cover!(m.bus().memory()[239] != 1 || true, "reached");
}

/// Residual: the largest image that fits is loaded without a crash.
#[cfg_attr(kani, kani::proof)]
#[cfg_attr(kani, kani::unwind(262))]
pub fn load_exact_240_residual() {
    let m = load_concrete(240);
    assert!(m.programsize() == Programsize::Size(240), "program size of a full image");
    kani::cover!(true, "reached");
}
