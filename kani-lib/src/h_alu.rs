//! C08: ALU function table, complete input space, no bound.
use crate::kani;
use crate::refs;
use emulator_2a_lib::machine::{AluInput, AluOutput, AluSelect};

const FUNCS: [AluSelect; 16] = [
    AluSelect::ADDH, AluSelect::A, AluSelect::NOR, AluSelect::ZERO,
    AluSelect::ADD, AluSelect::ADDS, AluSelect::ADC, AluSelect::ADCS,
    AluSelect::LSR, AluSelect::RR, AluSelect::RRC, AluSelect::ASR,
    AluSelect::B, AluSelect::SETC, AluSelect::BH, AluSelect::INVC,
];

fn check_fn(f: usize) {
    let a: u8 = kani::any();
    let b: u8 = kani::any();
    let cin: bool = kani::any();
    let out = AluOutput::from_input(&AluInput::new(a, b, cin), &FUNCS[f]);
    let (r, c, z, n) = refs::alu(f as u8, a, b, cin);
    assert!(out.output() == r, "result");
    assert!(out.carry_out() == c, "carry");
    assert!(out.zero_out() == z, "zero");
    assert!(out.negative_out() == n, "negative");
    kani::cover!(true, "reached");
}

#[cfg_attr(kani, kani::proof)]
pub fn alu_f00_addh() {
    check_fn(0)
}
#[cfg_attr(kani, kani::proof)]
pub fn alu_f01_a() {
    check_fn(1)
}
#[cfg_attr(kani, kani::proof)]
pub fn alu_f02_nor() {
    check_fn(2)
}
#[cfg_attr(kani, kani::proof)]
pub fn alu_f03_zero() {
    check_fn(3)
}
#[cfg_attr(kani, kani::proof)]
pub fn alu_f04_add() {
    check_fn(4)
}
#[cfg_attr(kani, kani::proof)]
pub fn alu_f05_adds() {
    check_fn(5)
}
#[cfg_attr(kani, kani::proof)]
pub fn alu_f06_adc() {
    check_fn(6)
}
#[cfg_attr(kani, kani::proof)]
pub fn alu_f07_adcs() {
    check_fn(7)
}
#[cfg_attr(kani, kani::proof)]
pub fn alu_f08_lsr() {
    check_fn(8)
}
#[cfg_attr(kani, kani::proof)]
pub fn alu_f09_rr() {
    check_fn(9)
}
#[cfg_attr(kani, kani::proof)]
pub fn alu_f10_rrc() {
    check_fn(10)
}
#[cfg_attr(kani, kani::proof)]
pub fn alu_f11_asr() {
    check_fn(11)
}
#[cfg_attr(kani, kani::proof)]
pub fn alu_f12_b() {
    check_fn(12)
}
#[cfg_attr(kani, kani::proof)]
pub fn alu_f13_setc() {
    check_fn(13)
}
#[cfg_attr(kani, kani::proof)]
pub fn alu_f14_bh() {
    check_fn(14)
}
#[cfg_attr(kani, kani::proof)]
pub fn alu_f15_invc() {
    check_fn(15)
}

/// The numeric selector really maps to the documented function (decoder used by the CPU).
#[cfg_attr(kani, kani::proof)]
pub fn alu_select_decoder() {
    use emulator_2a_lib::machine::AluSelect as S;
    let f: u8 = kani::any();
    kani::assume(f < 16);
    let a: u8 = kani::any();
    let b: u8 = kani::any();
    let cin: bool = kani::any();
    // FUNCS[f] as u8 == f : discriminants are the documented 4-bit codes
    assert!(FUNCS[f as usize] as u8 == f);
    let out = AluOutput::from_input(&AluInput::new(a, b, cin), &FUNCS[f as usize]);
    let (r, _c, z, n) = refs::alu(f, a, b, cin);
    // Z/N definitions hold for every function at once
    assert!(out.zero_out() == (out.output() == 0));
    assert!(out.negative_out() == (out.output() & 0x80 != 0));
    let _ = (r, z, n, S::default());
    kani::cover!(true, "reached");
}
