//! Reference model of the Minirechner 2a instruction set (the oracle of C01 / C04 / C15).
//!
//! Written at the level of the instruction table the assembler implements (`compiler.rs`
//! encodings), the instruction names / comments of the microprogram listing and the
//! property text.  It is an ISA-level interpreter: one function call per instruction,
//! no micro-steps, no scratch registers.  Memory is the real `Bus` object (its address
//! map is C10's obligation, the board's behaviour C14's), so "reads of 0xF0-0xFF return
//! whatever the bus returns, writes there do whatever the bus does".
//!
//! Flag rules (C, Z, N; IE and bits 4-7 of the flag register are kept unless stated):
//!   ADD/ADC/INC/NEG(+1)      C = carry out of the 8-bit addition
//!   SUB/CMP/DEC              C = borrow
//!   AND/OR/XOR/COM/BITS/BITC/BITT/TST/LDSP   C = 0
//!   LSR/ASR/RRC              C = bit shifted out
//!   MUL                      C = product > 255;  DIV: C = 0, by zero: 0xFF and C = 1
//!   Z = result == 0, N = bit 7 of the result (MUL: low byte, DIV: quotient)
//!   MOV/LD/ST/PUSH/POP/CLR/JR/CALL/RET/NOP: flags untouched;  POPF/LDFR/RETI load all 8 bits
//!   EI sets bit 3 and (hardware constant generator) bits 4-7, DI clears them.
//! `steps`/`waits` count the documented micro-steps' bus accesses for C15.
use emulator_2a_lib::machine::Bus;

pub const PC: usize = 3;
pub const FR: usize = 4;
pub const SP: usize = 5;

#[derive(Clone)]
pub struct Arch {
    pub r: [u8; 8],
    pub bus: Bus,
    /// number of bus steps that touched 0x00..=0xEF (one wait cycle each)
    pub waits: u32,
}

pub enum Outcome {
    Done,
    /// first byte of a two-byte instruction: source operand value
    Second(u8),
    Undefined,
}

impl Arch {
    pub fn new(r: [u8; 8], bus: Bus) -> Self {
        Arch { r, bus, waits: 0 }
    }
    fn acc(&mut self, a: u8) {
        if a <= 0xEF {
            self.waits += 1;
        }
    }
    fn rd(&mut self, a: u8) -> u8 {
        self.acc(a);
        self.bus.read(a)
    }
    fn wr(&mut self, a: u8, v: u8) {
        self.acc(a);
        self.bus.write(a, v)
    }
    pub fn czn(&mut self, c: bool, v: u8) {
        self.r[FR] = (self.r[FR] & 0xF8) | (c as u8) | (((v == 0) as u8) << 1) | (((v & 0x80 != 0) as u8) << 2);
    }
    /// instruction / operand byte fetch at PC
    pub fn fetch(&mut self) -> u8 {
        let b = self.rd(self.r[PC]);
        self.r[PC] = self.r[PC].wrapping_add(1);
        b
    }
    fn push(&mut self, v: u8) {
        self.r[SP] = self.r[SP].wrapping_sub(1);
        let sp = self.r[SP];
        self.wr(sp, v);
    }

    /// Execute the instruction whose first byte `b` has already been fetched (PC points behind it).
    pub fn exec_first(&mut self, b: u8) -> Outcome {
        if b == 0x2C {
            // fetching RETI clears the two key-interrupt status bits of MISR (emulator-defined, see C04)
            let mut p = self.bus.verif_parts();
            p.misr &= !0x11;
            self.bus.verif_assemble(p);
        }
        let rd = (b & 3) as usize;
        let rs = ((b >> 2) & 3) as usize;
        let sub = (b >> 2) & 3;
        match b >> 4 {
            0x0 => match sub {
                0 => {}                               // NOP (0x00/0x01 additionally halt: C05)
                1 => self.r[rd] = 0,                  // CLR
                2 => self.r[FR] |= 0xF8,              // EI
                _ => self.r[FR] &= 0x07,              // DI
            },
            0x1 => match sub {
                0 => {
                    let v = self.r[rd];
                    self.push(v)                      // PUSH Rn
                }
                1 => {
                    let sp = self.r[SP];              // POP Rn (POP PC = RET)
                    let v = self.rd(sp);
                    self.r[rd] = v;
                    self.r[SP] = self.r[SP].wrapping_add(1);
                }
                2 => {
                    let v = self.r[FR];
                    self.push(v)                      // PUSHF
                }
                _ => {
                    let sp = self.r[SP];              // POPF
                    self.r[FR] = self.rd(sp);
                    self.r[SP] = self.r[SP].wrapping_add(1);
                }
            },
            0x2 => match sub {
                0 | 1 => {
                    // JR cond, offset
                    let f = self.r[FR];
                    let flag = match b & 3 {
                        0 => true,
                        1 => f & 1 != 0,
                        2 => f & 2 != 0,
                        _ => f & 4 != 0,
                    };
                    let taken = flag != (b & 4 != 0);
                    if taken {
                        let pc = self.r[PC];
                        let off = self.rd(pc);
                        self.r[PC] = pc.wrapping_add(off).wrapping_add(1);
                    } else {
                        self.r[PC] = self.r[PC].wrapping_add(1);
                    }
                }
                2 => {
                    // CALL addr: push the return address, then load the target
                    let t = self.r[PC];
                    self.r[PC] = t.wrapping_add(1);
                    let ret = self.r[PC];
                    self.push(ret);
                    self.r[PC] = self.rd(t);
                }
                _ => {
                    // RETI: pop PC, pop FR
                    let sp = self.r[SP];
                    self.r[PC] = self.rd(sp);
                    self.r[SP] = sp.wrapping_add(1);
                    let sp = self.r[SP];
                    self.r[FR] = self.rd(sp);
                    self.r[SP] = sp.wrapping_add(1);
                }
            },
            0x3 => {
                let a = self.r[rd];
                match sub {
                    0 => {
                        self.r[rd] = !a;              // COM
                        self.czn(false, !a);
                    }
                    1 => {
                        let v = (!a).wrapping_add(1); // NEG
                        self.r[rd] = v;
                        self.czn(a == 0, v);
                    }
                    2 => {
                        self.r[rd] = a >> 1;          // LSR
                        self.czn(a & 1 != 0, a >> 1);
                    }
                    _ => {
                        let v = (a >> 1) | (a & 0x80); // ASR
                        self.r[rd] = v;
                        self.czn(a & 1 != 0, v);
                    }
                }
            }
            0x4 => {
                let a = self.r[rd];
                match sub {
                    0 => {
                        let v = (a >> 1) | ((self.r[FR] & 1) << 7); // RRC
                        self.r[rd] = v;
                        self.czn(a & 1 != 0, v);
                    }
                    1 => {
                        let v = a.wrapping_add(1);    // INC
                        self.r[rd] = v;
                        self.czn(a == 0xFF, v);
                    }
                    2 => self.czn(false, a),          // TST
                    _ => return Outcome::Undefined,
                }
            }
            0x5 => {
                // DEC with the four addressing modes (the assembler emits the register form)
                match sub {
                    0 => {
                        let a = self.r[rd];
                        let v = a.wrapping_sub(1);
                        self.r[rd] = v;
                        self.czn(a == 0, v);
                    }
                    1 | 2 => {
                        let p = self.r[rd];
                        let a = self.rd(p);
                        let v = a.wrapping_sub(1);
                        self.czn(a == 0, v);
                        self.wr(p, v);
                        if sub == 2 {
                            self.r[rd] = self.r[rd].wrapping_add(1);
                        }
                    }
                    _ => {
                        let pp = self.r[rd];
                        let p = self.rd(pp);
                        let a = self.rd(p);
                        let v = a.wrapping_sub(1);
                        self.czn(a == 0, v);
                        self.wr(p, v);
                        self.r[rd] = self.r[rd].wrapping_add(1);
                    }
                }
            }
            0x6 | 0x7 => {
                let cin = if b >> 4 == 7 { (self.r[FR] & 1) as u16 } else { 0 };
                let s = self.r[rd] as u16 + self.r[rs] as u16 + cin; // ADD / ADC (LSL = ADD Rd,Rd; RLC = ADC Rd,Rd)
                self.r[rd] = s as u8;
                self.czn(s > 255, s as u8);
            }
            0x8 => {
                let (a, s) = (self.r[rd], self.r[rs]);
                let v = a.wrapping_sub(s);            // SUB
                self.r[rd] = v;
                self.czn(a < s, v);
            }
            0x9 | 0xA | 0xD => {
                let (a, s) = (self.r[rd], self.r[rs]);
                let v = match b >> 4 {
                    0x9 => a & s,
                    0xA => a | s,
                    _ => a ^ s,
                };
                self.r[rd] = v;
                self.czn(false, v);
            }
            0xB => {
                let p = self.r[rd] as u16 * self.r[rs] as u16; // MUL
                self.r[rd] = p as u8;
                self.czn(p > 255, p as u8);
            }
            0xC => {
                let (a, s) = (self.r[rd], self.r[rs]); // DIV
                if s == 0 {
                    self.r[rd] = 0xFF;
                    self.czn(true, 0xFF);
                } else {
                    let q = a / s;
                    self.r[rd] = q;
                    self.czn(false, q);
                }
            }
            0xE => return Outcome::Undefined,
            _ => {
                // 0xF: source operand of a two-byte instruction, register `rd`, mode `sub`
                let v = match sub {
                    0 => self.r[rd],
                    1 => {
                        let p = self.r[rd];
                        self.rd(p)
                    }
                    2 => {
                        let p = self.r[rd];
                        let v = self.rd(p);
                        self.r[rd] = self.r[rd].wrapping_add(1);
                        v
                    }
                    _ => {
                        let pp = self.r[rd];
                        let p = self.rd(pp);
                        let v = self.rd(p);
                        self.r[rd] = self.r[rd].wrapping_add(1);
                        v
                    }
                };
                return Outcome::Second(v);
            }
        }
        Outcome::Done
    }

    /// Second byte `b2` (already fetched) of a two-byte instruction with source value `v`.
    pub fn exec_second(&mut self, b2: u8, v: u8) -> Outcome {
        let rd = (b2 & 3) as usize;
        let md = (b2 >> 2) & 3;
        let class = b2 >> 4;
        match class {
            1 => {
                // MOV dst, src
                match md {
                    0 => self.r[rd] = v,
                    1 => {
                        let p = self.r[rd];
                        self.wr(p, v)
                    }
                    2 => {
                        let p = self.r[rd];
                        self.wr(p, v);
                        self.r[rd] = self.r[rd].wrapping_add(1);
                    }
                    _ => {
                        let pp = self.r[rd];
                        let p = self.rd(pp);
                        self.wr(p, v);
                        self.r[rd] = self.r[rd].wrapping_add(1);
                    }
                }
                Outcome::Done
            }
            2 | 3 => {
                // CMP / BITT: read the destination operand, set flags, write nothing
                let d = match md {
                    0 => self.r[rd],
                    1 | 2 => {
                        let p = self.r[rd];
                        self.rd(p)
                    }
                    _ => {
                        let pp = self.r[rd];
                        let p = self.rd(pp);
                        self.rd(p)
                    }
                };
                if md >= 2 {
                    self.r[rd] = self.r[rd].wrapping_add(1);
                }
                if class == 2 {
                    self.czn(d < v, d.wrapping_sub(v));
                } else {
                    self.czn(false, d & v);
                }
                Outcome::Done
            }
            4 => match md {
                0 => {
                    self.r[SP] = v;                   // LDSP
                    self.czn(false, v);
                    Outcome::Done
                }
                1 => {
                    self.r[FR] = v;                   // LDFR
                    Outcome::Done
                }
                _ => Outcome::Undefined,
            },
            5 | 6 => {
                // BITS / BITC: read-modify-write of the destination
                let f = |d: u8| if class == 5 { d | v } else { d & !v };
                match md {
                    0 => {
                        let res = f(self.r[rd]);
                        self.r[rd] = res;
                        self.czn(false, res);
                    }
                    1 | 2 => {
                        let p = self.r[rd];
                        let res = f(self.rd(p));
                        self.czn(false, res);
                        self.wr(p, res);
                        if md == 2 {
                            self.r[rd] = self.r[rd].wrapping_add(1);
                        }
                    }
                    _ => {
                        let pp = self.r[rd];
                        let p = self.rd(pp);
                        let res = f(self.rd(p));
                        self.czn(false, res);
                        if class == 6 {
                            // BITC re-reads the pointer before the write (documented step "MOV R6,(Rd)")
                            let _ = self.rd(pp);
                        }
                        self.wr(p, res);
                        self.r[rd] = self.r[rd].wrapping_add(1);
                    }
                }
                Outcome::Done
            }
            _ => Outcome::Undefined,
        }
    }

    /// Interrupt entry (C04): push FR, push PC (= address of the next instruction),
    /// disable interrupts, continue at address 2.
    pub fn interrupt_entry(&mut self) {
        let f = self.r[FR];
        self.push(f);
        let pc = self.r[PC];
        self.push(pc);
        self.r[FR] &= 0x07;
        self.r[PC] = 2;
    }
}
