//! Symbolic construction and field-wise comparison of machine state (through the
//! cfg-guarded hooks of /repo).  Floats are always built from / compared by bit patterns.
use crate::kani;
use emulator_2a_lib::machine::{
    AluOutput, Board, Bus, Machine, MachineConfig, RawMachine, RegisterNumber, State, StepMode,
    VerifBoardParts, VerifBusParts,
};
use emulator_2a_lib::parser::{Programsize, Stacksize};

pub const REGS: [RegisterNumber; 8] = [
    RegisterNumber::R0,
    RegisterNumber::R1,
    RegisterNumber::R2,
    RegisterNumber::R3,
    RegisterNumber::R4,
    RegisterNumber::R5,
    RegisterNumber::R6,
    RegisterNumber::R7,
];

pub fn f32_any() -> f32 {
    f32::from_bits(kani::any::<u32>())
}

pub fn any_board_parts() -> VerifBoardParts {
    VerifBoardParts {
        digital_input1: kani::any(),
        digital_output1: kani::any(),
        digital_output2: kani::any(),
        temp: f32_any(),
        dasr: kani::any(),
        daisr: kani::any(),
        daicr: kani::any(),
        analog_inputs: [f32_any(), f32_any()],
        analog_outputs: [f32_any(), f32_any()],
        fan_rpm: kani::any(),
        uio_dir: [kani::any(), kani::any(), kani::any()],
    }
}

/// A completely arbitrary board (every bit pattern of every field; flag registers
/// truncated to their defined bits exactly as the type does).
pub fn any_board() -> Board {
    Board::verif_assemble(any_board_parts())
}

pub fn any_bus_parts() -> VerifBusParts {
    VerifBusParts {
        input_reg: kani::any(),
        output_reg: kani::any(),
        micr: kani::any(),
        misr: kani::any(),
        ucr: kani::any(),
        usr: kani::any(),
        uart_send: kani::any(),
        uart_recv: kani::any(),
        timer_enabled: kani::any(),
        timer_div1: kani::any(),
        timer_div2: kani::any(),
        timer_div3: kani::any(),
    }
}

/// Arbitrary bus: RAM (240 symbolic bytes), all registers, arbitrary board.
pub fn any_bus() -> Bus {
    let mut bus = Bus::new();
    let ram: [u8; 0xF0] = kani::any();
    *bus.memory_mut() = ram;
    bus.verif_assemble(any_bus_parts());
    *bus.board_mut() = any_board();
    bus
}

/// Bus with arbitrary RAM and registers but the power-on board (board state is
/// irrelevant for the harness and proved irrelevant elsewhere).
pub fn any_bus_plain_board() -> Bus {
    let mut bus = Bus::new();
    let ram: [u8; 0xF0] = kani::any();
    *bus.memory_mut() = ram;
    bus.verif_assemble(any_bus_parts());
    bus
}

pub fn any_stacksize() -> Stacksize {
    let s: u8 = kani::any();
    kani::assume(s < 5);
    match s {
        0 => Stacksize::_0,
        1 => Stacksize::_16,
        2 => Stacksize::_32,
        3 => Stacksize::_48,
        _ => Stacksize::_64,
    }
}

/// Any program size setting a loaded machine can have (`Size(n)`) or the
/// never-loaded default (`Auto`); `NotSet` included when `with_notset`.
pub fn any_programsize(with_notset: bool) -> Programsize {
    let k: u8 = kani::any();
    let n: u8 = kani::any();
    kani::assume(k < 3);
    if k == 0 {
        Programsize::Size(n)
    } else if k == 1 || !with_notset {
        Programsize::Auto
    } else {
        Programsize::NotSet
    }
}

pub fn any_state() -> State {
    let s: u8 = kani::any();
    kani::assume(s < 3);
    match s {
        0 => State::Running,
        1 => State::Stopped,
        _ => State::ErrorStopped,
    }
}

pub fn any_regnum() -> RegisterNumber {
    let r: u8 = kani::any();
    kani::assume(r < 8);
    REGS[r as usize]
}

pub fn any_latch() -> AluOutput {
    AluOutput::verif_from_parts(kani::any(), kani::any(), kani::any(), kani::any())
}

/// Everything of a RawMachine except the bus made arbitrary.
/// Invariant Inv (DESIGN 2.1): micro address < 512, stacksize != NotSet,
/// no level interrupt pending (nothing in the code base ever sets it).
pub fn any_core_into(m: &mut RawMachine) {
    let regs: [u8; 8] = kani::any();
    for i in 0..8 {
        m.registers_mut().set(REGS[i], regs[i]);
    }
    let a: usize = kani::any();
    kani::assume(a < 512);
    m.verif_set_micro_address(a);
    m.verif_set_ir(kani::any());
    let prw: bool = kani::any();
    let prw_r = any_regnum();
    m.verif_set_pending_register_write(if prw { Some(prw_r) } else { None });
    m.verif_set_pending_flag_write(kani::any());
    m.verif_set_pending_edge_interrupt(kani::any());
    m.verif_set_pending_wait(kani::any());
    m.verif_set_alu_latch(any_latch());
    m.verif_set_last_bus_read(kani::any());
    m.verif_set_state(any_state());
    m.set_stacksize(any_stacksize());
    m.set_programsize(any_programsize(true));
}

/// Fully arbitrary RawMachine satisfying Inv.
pub fn any_raw() -> RawMachine {
    let mut m = RawMachine::new();
    *m.bus_mut() = any_bus();
    any_core_into(&mut m);
    m
}

pub fn any_step_mode() -> StepMode {
    if kani::any() {
        StepMode::Real
    } else {
        StepMode::Assembly
    }
}

pub fn any_machine() -> Machine {
    let mut m = Machine::new(MachineConfig::default());
    *m.raw_mut() = any_raw();
    m.set_step_mode(any_step_mode());
    m
}

// ---------------------------------------------------------------------------
// comparison (bit-exact, NaN-proof)

pub fn board_bits(b: &Board) -> ([u8; 6], [u32; 5], usize, [bool; 3]) {
    let p = b.verif_parts();
    (
        [p.digital_input1, p.digital_output1, p.digital_output2, p.dasr, p.daisr, p.daicr],
        [
            p.temp.to_bits(),
            p.analog_inputs[0].to_bits(),
            p.analog_inputs[1].to_bits(),
            p.analog_outputs[0].to_bits(),
            p.analog_outputs[1].to_bits(),
        ],
        p.fan_rpm,
        p.uio_dir,
    )
}

pub fn same_board(a: &Board, b: &Board) -> bool {
    let (a8, a32, af, ad) = board_bits(a);
    let (b8, b32, bf, bd) = board_bits(b);
    let mut ok = af == bf;
    let mut i = 0;
    while i < 6 {
        ok &= a8[i] == b8[i];
        i += 1;
    }
    let mut i = 0;
    while i < 5 {
        ok &= a32[i] == b32[i];
        i += 1;
    }
    ok & (ad[0] == bd[0]) & (ad[1] == bd[1]) & (ad[2] == bd[2])
}

pub fn same_bus_regs(a: &Bus, b: &Bus) -> bool {
    let p = a.verif_parts();
    let q = b.verif_parts();
    p.input_reg[0] == q.input_reg[0]
        && p.input_reg[1] == q.input_reg[1]
        && p.input_reg[2] == q.input_reg[2]
        && p.input_reg[3] == q.input_reg[3]
        && p.output_reg[0] == q.output_reg[0]
        && p.output_reg[1] == q.output_reg[1]
        && p.micr == q.micr
        && p.misr == q.misr
        && p.ucr == q.ucr
        && p.usr == q.usr
        && p.uart_send == q.uart_send
        && p.uart_recv == q.uart_recv
        && p.timer_enabled == q.timer_enabled
        && p.timer_div1 == q.timer_div1
        && p.timer_div2 == q.timer_div2
        && p.timer_div3 == q.timer_div3
}

/// RAM equality via one symbolic index (a universally quantified cell):
/// callers assert `a[i] == b[i]` for an arbitrary `i < 240`.
pub fn any_ram_index() -> usize {
    let i: usize = kani::any();
    kani::assume(i < 0xF0);
    i
}

pub fn same_ram(a: &Bus, b: &Bus) -> bool {
    let x = a.memory();
    let y = b.memory();
    let mut ok = true;
    let mut i = 0;
    while i < 0xF0 {
        ok &= x[i] == y[i];
        i += 1;
    }
    ok
}

pub fn same_bus(a: &Bus, b: &Bus) -> bool {
    same_ram(a, b) && same_bus_regs(a, b) && same_board(a.board(), b.board())
}

pub fn same_latch(a: &AluOutput, b: &AluOutput) -> bool {
    a.output() == b.output()
        && a.carry_out() == b.carry_out()
        && a.zero_out() == b.zero_out()
        && a.negative_out() == b.negative_out()
}

pub fn same_regs(a: &RawMachine, b: &RawMachine) -> bool {
    let x = a.registers().content();
    let y = b.registers().content();
    let mut ok = true;
    let mut i = 0;
    while i < 8 {
        ok &= x[i] == y[i];
        i += 1;
    }
    ok
}

pub fn regnum_eq(a: Option<RegisterNumber>, b: Option<RegisterNumber>) -> bool {
    match (a, b) {
        (None, None) => true,
        (Some(x), Some(y)) => x as u8 == y as u8,
        _ => false,
    }
}

/// The CPU-side hidden state (everything but bus and limits).
pub fn same_core(a: &RawMachine, b: &RawMachine) -> bool {
    same_regs(a, b)
        && a.verif_micro_address() == b.verif_micro_address()
        && a.verif_ir() == b.verif_ir()
        && regnum_eq(a.verif_pending_register_write(), b.verif_pending_register_write())
        && a.verif_pending_flag_write() == b.verif_pending_flag_write()
        && a.verif_pending_edge_interrupt() == b.verif_pending_edge_interrupt()
        && a.verif_pending_level_interrupt() == b.verif_pending_level_interrupt()
        && a.verif_pending_wait() == b.verif_pending_wait()
        && same_latch(a.verif_alu_latch(), b.verif_alu_latch())
        && a.verif_last_bus_read() == b.verif_last_bus_read()
        && a.state() == b.state()
}

pub fn same_limits(a: &RawMachine, b: &RawMachine) -> bool {
    a.stacksize() == b.stacksize() && a.programsize() == b.programsize()
}

pub fn same_raw(a: &RawMachine, b: &RawMachine) -> bool {
    same_core(a, b) && same_limits(a, b) && same_bus(a.bus(), b.bus())
}
