//! Support for the generated path harnesses (DESIGN 2.4): concrete control, symbolic data.
use crate::h_edge::ref_commit;
use crate::isa_ref::{Arch, Outcome, FR, PC, SP};
use crate::kani;
use crate::st::*;
use emulator_2a_lib::machine::{RawMachine, State};

/// Arbitrary Running machine whose current control word is `addr` (everything else symbolic:
/// stale IR, pending writes, latch, flip-flop, wait, registers, RAM, I/O, board, limits).
pub fn state_at(addr: usize) -> RawMachine {
    let mut m = any_raw();
    kani::assume(m.state() == State::Running);
    m.verif_set_micro_address(addr);
    m
}

/// One micro-step of the path: a pending memory wait swallows one edge (lemma L-wait, so it is
/// replaced by clearing the flag and counting the edge), then the REAL edge; the control state
/// is then re-concretised (assume x == C; set x := C is the identity on the assumed paths).
pub fn step(m: &mut RawMachine, edges: &mut u32, expect: usize) {
    if m.verif_pending_wait() {
        *edges += 1;
        m.verif_set_pending_wait(false);
    }
    m.trigger_clock_edge();
    *edges += 1;
    kani::assume(m.state() == State::Running); // halting paths belong to C05
    m.verif_set_state(State::Running);
    kani::assume(m.verif_micro_address() == expect);
    m.verif_set_micro_address(expect);
}

/// After the IR-load edge: the instruction register holds the byte that was on the bus latch.
pub fn pin_ir(m: &mut RawMachine, byte: u8) {
    assert!(m.verif_ir() == byte, "IR = fetched byte");
    m.verif_set_ir(byte);
}

/// Registers as the program sees them at a fetch-word boundary: pending commit applied.
pub fn arch_of(m: &RawMachine) -> Arch {
    Arch::new(ref_commit(m), m.bus().clone())
}

pub fn cmp_regs(m: &RawMachine, a: &Arch) {
    let got = ref_commit(m);
    assert!(got[0] == a.r[0], "R0");
    assert!(got[1] == a.r[1], "R1");
    assert!(got[2] == a.r[2], "R2");
    assert!(got[PC] == a.r[PC], "PC");
    assert!(got[FR] == a.r[FR], "flag register (C/Z/N/IE and upper bits)");
    assert!(got[SP] == a.r[SP], "SP");
}

pub fn cmp_bus(m: &RawMachine, a: &Arch) {
    let i = any_ram_index();
    assert!(m.bus().memory()[i] == a.bus.memory()[i], "RAM");
    assert!(same_bus_regs(m.bus(), &a.bus), "I/O registers (outputs, MICR, ...)");
    assert!(same_board(m.bus().board(), a.bus.board()), "board");
}

/// End of an instruction: the real machine's current word is a fetch word again, i.e. it has
/// already read the next opcode and scheduled PC+1.  `len` = micro-steps of the path.
pub fn end_at_fetch(m: &RawMachine, a: &mut Arch, edges: u32, len: u32, pre_wait: bool, timing: bool) {
    let waits = a.waits;
    let pc = a.r[PC];
    let next = a.bus.read(pc);
    a.r[PC] = pc.wrapping_add(1);
    assert!(m.is_instruction_done(), "at an instruction boundary");
    if timing {
        assert!(m.verif_pending_wait() == (pc <= 0xEF), "C15: the fetch waits iff PC is in RAM");
        assert!(edges == len + pre_wait as u32 + waits, "C15: edges = micro-steps + one wait per RAM access");
    } else {
        cmp_regs(m, a);
        cmp_bus(m, a);
        assert!(m.verif_last_bus_read() == next, "next opcode byte fetched from PC");
    }
}

/// End of the first half of a two-byte instruction: word 0x1E6 is current (second byte read, PC+1 pending).
pub fn end_at_second_fetch(m: &RawMachine, a: &mut Arch, v: u8, edges: u32, len: u32, pre_wait: bool, timing: bool) {
    let waits = a.waits;
    let pc = a.r[PC];
    let next = a.bus.read(pc);
    a.r[PC] = pc.wrapping_add(1);
    if timing {
        assert!(m.verif_pending_wait() == (pc <= 0xEF), "C15: the fetch waits iff PC is in RAM");
        assert!(edges == len + pre_wait as u32 + waits, "C15: edges = micro-steps + one wait per RAM access");
    } else {
        cmp_regs(m, a);
        cmp_bus(m, a);
        assert!(ref_commit(m)[6] == v, "hand-over: R6 = source operand value");
        assert!(m.verif_last_bus_read() == next, "second byte fetched from PC");
    }
}

// ---- MUL / DIV loop invariants (committed view of the registers) ------------------------

/// MUL, at the loop entry points (word 0x164 or 0x168 current): with P the true product,
/// R7 + R6*Rd == P (mod 256); if C is clear the equation is exact; if C is set P > 255.
pub fn mul_inv(r: &[u8; 8], rd: usize, p: u16) -> bool {
    let c = r[FR] & 1 != 0;
    let lin = r[7] as u32 + (r[6] as u32) * (r[rd] as u32);
    (lin & 0xFF) == (p as u32 & 0xFF) && (c || lin == p as u32) && (!c || p > 255)
}

/// DIV, at the loop entry points (word 0x186 or 0x188 current): divisor b != 0 is held
/// complemented in R6, a == R7*b + Rd exactly, and the flags describe the quotient so far.
pub fn div_inv(r: &[u8; 8], rd: usize, a: u8, b: u8) -> bool {
    let f = r[FR];
    b != 0
        && r[6] == !b
        && (a as u32) == (r[7] as u32) * (b as u32) + r[rd] as u32
        && f & 1 == 0
        && ((f & 2 != 0) == (r[7] == 0))
        && ((f & 4 != 0) == (r[7] & 0x80 != 0))
}

/// R0..R5 except `rd` and the flag register are what they were (frame of a loop segment).
pub fn frame_except(now: &[u8; 8], before: &[u8; 8], rd: usize) -> bool {
    let mut ok = true;
    let mut i = 0;
    while i < 6 {
        if i != rd && i != FR {
            ok &= now[i] == before[i];
        }
        i += 1;
    }
    ok && (now[FR] & 0xF8 == before[FR] & 0xF8)
}

/// A fetch word whose content differs from the representative 0x006 must still behave like it
/// (generated only when the microprogram contains such a word).
pub fn fetch_word_equiv(other: usize) {
    let mut a = state_at(0x006);
    a.verif_set_pending_wait(false);
    let mut b = a.clone();
    b.verif_set_micro_address(other);
    a.trigger_clock_edge();
    b.trigger_clock_edge();
    assert!(same_core(&a, &b), "every instruction-fetch word behaves like the representative fetch word");
    assert!(same_bus_regs(a.bus(), b.bus()) && same_board(a.bus().board(), b.bus().board()), "same bus effect");
    let i = any_ram_index();
    assert!(a.bus().memory()[i] == b.bus().memory()[i], "same RAM effect");
}

/// End of an instruction whose last word took the interrupt branch: an 'int:' word is current, nothing
/// but the instruction's own effect has happened yet, and the sampled flip-flop is cleared.
pub fn end_at_int(m: &RawMachine, a: &mut Arch, edges: u32, len: u32, pre_wait: bool, timing: bool) {
    let waits = a.waits;
    if timing {
        assert!(!m.verif_pending_wait(), "C15: the 'int:' word does not touch the bus");
        assert!(edges == len + pre_wait as u32 + waits, "C15: edges = micro-steps + one wait per RAM access");
    } else {
        cmp_regs(m, a);
        cmp_bus(m, a);
        assert!(!m.verif_pending_edge_interrupt(), "C04: the key flip-flop is cleared by the sampling word");
        assert!(!m.is_instruction_done(), "the interrupt entry routine follows before the next instruction boundary");
    }
}
