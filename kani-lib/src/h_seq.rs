//! C09: the real clock edge's sequencing (next micro address, IR update, key flip-flop)
//! equals the generated per-word model for every word and every symbolic input.
//! The model (gen/seq_model.rs) is regenerated from /repo's source on every run; the
//! graph facts of C09 are then computed over the model by vlib/seq.py.
use crate::gen::seq_model::{model, WORDS};
use crate::h_edge::ref_commit;
use crate::kani;
use crate::st::*;
use emulator_2a_lib::machine::{MicroprogramRam, State};

fn seq_check(lo: usize, hi: usize) {
    let mut m = any_raw();
    kani::assume(m.state() == State::Running && !m.verif_pending_wait());
    let a = m.verif_micro_address();
    kani::assume(a >= lo && a < hi);
    let pre = m.clone();
    m.trigger_clock_edge();
    let f = ref_commit(&pre)[4];
    let l = pre.verif_alu_latch();
    let (a2, ir2, iff2) = model(
        a,
        pre.verif_ir(),
        f & 1 != 0,
        f & 2 != 0,
        f & 4 != 0,
        f & 8 != 0,
        l.carry_out(),
        l.zero_out(),
        l.negative_out(),
        pre.verif_pending_edge_interrupt(),
        pre.verif_last_bus_read(),
    );
    assert!(MicroprogramRam::CONTENT[a].bits() == WORDS[a], "control store as parsed from the source");
    assert!(m.verif_micro_address() == a2, "next micro address = model");
    assert!(m.verif_ir() == ir2, "IR update = model");
    assert!(m.verif_pending_edge_interrupt() == iff2, "flip-flop = model");
    assert!(m.verif_micro_address() >> 5 == (m.verif_ir() >> 4) as usize, "stays in the block of the current opcode");
    assert!(m.is_instruction_done() == (WORDS[a2] >> 27 & 1 == 1), "instruction boundary = MAC3 of the new word");
    kani::cover!(a == hi - 1, "last address of the range");
}

#[cfg_attr(kani, kani::proof)]
pub fn seq_edge_matches_model_000_0ff() {
    seq_check(0x000, 0x100)
}

#[cfg_attr(kani, kani::proof)]
pub fn seq_edge_matches_model_100_1ff() {
    seq_check(0x100, 0x200)
}
