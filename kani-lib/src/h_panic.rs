//! C13: no stimulus can crash the core.  Kani's default checks (arithmetic overflow,
//! index bounds, unwrap/expect, unreachable!, float-to-int casts) are the assertion.
use crate::kani;
use crate::st::*;
use emulator_2a_lib::machine::{RawMachine, State};
use emulator_2a_lib::parser::Stacksize;

#[cfg_attr(kani, kani::proof)]
pub fn stimuli_never_panic() {
    let mut m = any_raw();
    let op: u8 = kani::any();
    kani::assume(op < 16);
    let byte: u8 = kani::any();
    let level: bool = kani::any();
    let volt = f32_any();
    match op {
        0 => m.trigger_key_edge_interrupt(),
        1 => m.trigger_key_continue(),
        2 => m.cpu_reset(),
        3 => m.master_reset(),
        4 => m.bus_mut().input_fc(byte),
        5 => m.bus_mut().input_fd(byte),
        6 => m.bus_mut().input_fe(byte),
        7 => m.bus_mut().input_ff(byte),
        8 => m.bus_mut().board_mut().set_digital_input1(byte),
        9 => m.bus_mut().board_mut().set_temp(volt),
        10 => m.bus_mut().board_mut().set_analog_input1(volt),
        11 => m.bus_mut().board_mut().set_analog_input2(volt),
        12 => m.bus_mut().board_mut().set_jumper1(level),
        13 => m.bus_mut().board_mut().set_jumper2(level),
        14 => m.bus_mut().board_mut().set_universal_input_output1(level),
        _ => {
            m.bus_mut().board_mut().set_universal_input_output2(level);
            m.bus_mut().board_mut().set_universal_input_output3(level);
        }
    }
    assert!(m.verif_micro_address() < 512, "Inv: micro address");
    assert!(m.stacksize() != Stacksize::NotSet, "Inv: stack size");
    assert!(!m.verif_pending_level_interrupt(), "Inv: no level interrupt");
    let _ = (m.state(), m.is_instruction_done(), m.is_stackpointer_valid(), m.is_program_counter_valid());
    kani::cover!(op == 9 && volt.is_nan(), "NaN voltage");
    kani::cover!(op == 3, "master reset");
}

#[cfg_attr(kani, kani::proof)]
pub fn bus_calls_never_panic() {
    let mut bus = any_bus();
    let addr: u8 = kani::any();
    let byte: u8 = kani::any();
    let wr: bool = kani::any();
    if wr {
        bus.write(addr, byte);
    } else {
        let _ = bus.read(addr);
    }
    // the bus stays usable
    let _ = bus.read(kani::any());
    kani::cover!(wr && addr == 0xFD, "timer high write");
    kani::cover!(!wr && addr == 0xF2, "fan period read");
}
