//! C02 / C06: one step of the translator (`push_instruction`, through the guarded hook
//! `compiler::verif_hooks::step`) from a symbolic address counter, for every instruction
//! form with symbolic registers / constants / addressing shapes, against the reference
//! encoding table below (written from the instruction table: opcode bases, mode/register
//! fields, operand bytes).
//!
//! Inductive reading: a label line stores the current counter; if after every line the
//! counter equals (counter before) + (bytes emitted), every stored address is the address
//! of the byte that follows the label.  The label table itself (HashMap) is outside.
use crate::kani;
use emulator_2a_lib::compiler::verif_hooks::step;
use emulator_2a_lib::compiler::ByteOrLabel;
use emulator_2a_lib::parser::{
    Constant, Destination, Instruction, MemAddress, Programsize, Register, RegisterDdi, RegisterDi,
    Source, Stacksize,
};

/// Stub for `RandomState::new` (only removes `getrandom`/thread-local key setup of the empty
/// HashMap inside `Translator::new()`; hashing itself is never executed on these paths).
#[cfg(kani)]
pub fn rs_stub() -> std::hash::RandomState {
    unsafe { core::mem::transmute([0u64; 2]) }
}

// ---- reference encoding ------------------------------------------------------------------

#[derive(Clone, Copy, PartialEq)]
pub enum Item {
    Byte(u8),
    /// absolute address of label "L"
    Abs,
    /// relative offset to label "L": target - (address of the next instruction)
    Rel,
}

pub const LBL: &str = "L";

pub fn reg(n: u8) -> Register {
    match n & 3 {
        0 => Register::R0,
        1 => Register::R1,
        2 => Register::R2,
        _ => Register::R3,
    }
}

pub fn any_reg() -> (Register, u8) {
    let n: u8 = kani::any();
    kani::assume(n < 4);
    (reg(n), n)
}

/// Compare what the translator emitted with the expected items; `next` = counter before.
pub fn check(emitted: &[ByteOrLabel], expect: &[Option<Item>; 4], next: u8, new_next: u8) {
    let mut n = 0usize;
    let mut k = 0usize;
    while k < 4 {
        if let Some(it) = expect[k] {
            assert!(n < emitted.len(), "fewer bytes emitted than the encoding has");
            match (&emitted[n], it) {
                (ByteOrLabel::Byte(b), Item::Byte(e)) => assert!(*b == e, "encoded byte"),
                (ByteOrLabel::Label(l), Item::Abs) => assert!(l.as_str() == LBL, "label reference"),
                (ByteOrLabel::LabelFn(l, f), Item::Rel) => {
                    assert!(l.as_str() == LBL, "label reference");
                    let target: u8 = kani::any();
                    let got = (**f)(target);
                    assert!(got == target.wrapping_sub(next.wrapping_add(2)), "relative offset = target - next instruction");
                }
                _ => assert!(false, "wrong kind of item emitted"),
            }
            n += 1;
        }
        k += 1;
    }
    assert!(emitted.len() == n, "more bytes emitted than the encoding has");
    assert!(new_next as usize == next as usize + n, "address counter advances by the bytes emitted");
}

pub fn any_next(room: u8) -> u8 {
    let next: u8 = kani::any();
    kani::assume(next as u16 + room as u16 <= 255);
    next
}

// ---- directives ----------------------------------------------------------------------------

fn all_zero(e: &[ByteOrLabel], n: usize) {
    assert!(e.len() == n, "fill length");
    let mut i = 0;
    while i < e.len() {
        match &e[i] {
            ByteOrLabel::Byte(b) => assert!(*b == 0, "zero fill"),
            _ => assert!(false, "fill must be bytes"),
        }
        i += 1;
    }
}

/// `.ORG addr` (forward, skip <= 4) and `.BYTE n` (n <= 4): zero fill, counter += fill.
#[cfg_attr(kani, kani::proof)]
#[cfg_attr(kani, kani::stub(std::hash::RandomState::new, crate::h_tr::rs_stub))]
#[cfg_attr(kani, kani::unwind(7))]
pub fn tr_org_forward() {
    let next: u8 = kani::any();
    let addr: u8 = kani::any();
    kani::assume(addr >= next && addr - next <= 4);
    let st = step(next, &Instruction::AsmOrigin(addr));
    all_zero(&st.emitted, (addr - next) as usize);
    assert!(st.next_addr == addr, ".ORG: counter = origin");
    kani::cover!(addr - next == 4, "max skip");
    core::mem::forget(st);
}

#[cfg_attr(kani, kani::proof)]
#[cfg_attr(kani, kani::stub(std::hash::RandomState::new, crate::h_tr::rs_stub))]
#[cfg_attr(kani, kani::unwind(7))]
pub fn tr_byte() {
    let n: u8 = kani::any();
    kani::assume(n <= 4);
    let next = any_next(8);
    let st = step(next, &Instruction::AsmByte(n));
    all_zero(&st.emitted, n as usize);
    assert!(st.next_addr as usize == next as usize + n as usize, ".BYTE n: counter advances by n");
    kani::cover!(n == 4, "max n");
    core::mem::forget(st);
}

fn db(len: usize) {
    let next = any_next(8);
    let data: [u8; 4] = kani::any();
    let mut v = Vec::with_capacity(4);
    let mut i = 0;
    while i < len {
        v.push(data[i]);
        i += 1;
    }
    let inst = Instruction::AsmDefineBytes(v);
    let st = step(next, &inst);
    assert!(st.emitted.len() == len, ".DB: one byte per item");
    let mut i = 0;
    while i < len {
        match &st.emitted[i] {
            ByteOrLabel::Byte(b) => assert!(*b == data[i], ".DB byte"),
            _ => assert!(false, ".DB emits bytes"),
        }
        i += 1;
    }
    assert!(st.next_addr as usize == next as usize + len, ".DB: counter advances by the item count");
    kani::cover!(true, "reached");
    core::mem::forget(st);
    core::mem::forget(inst);
}

#[cfg_attr(kani, kani::proof)]
#[cfg_attr(kani, kani::stub(std::hash::RandomState::new, crate::h_tr::rs_stub))]
#[cfg_attr(kani, kani::unwind(8))]
pub fn tr_db_n1() {
    db(1)
}

#[cfg_attr(kani, kani::proof)]
#[cfg_attr(kani, kani::stub(std::hash::RandomState::new, crate::h_tr::rs_stub))]
#[cfg_attr(kani, kani::unwind(8))]
pub fn tr_db_n2() {
    db(2)
}

#[cfg_attr(kani, kani::proof)]
#[cfg_attr(kani, kani::stub(std::hash::RandomState::new, crate::h_tr::rs_stub))]
#[cfg_attr(kani, kani::unwind(8))]
pub fn tr_db_n3() {
    db(3)
}

#[cfg_attr(kani, kani::proof)]
#[cfg_attr(kani, kani::stub(std::hash::RandomState::new, crate::h_tr::rs_stub))]
#[cfg_attr(kani, kani::unwind(8))]
pub fn tr_db_n4() {
    db(4)
}

// ---- C06: no accepted shape may crash the translator step or the load ----------------------

/// `.ORG addr` with any address relative to the current counter (fill bounded by 6 for the loop).
#[cfg_attr(kani, kani::proof)]
#[cfg_attr(kani, kani::stub(std::hash::RandomState::new, crate::h_tr::rs_stub))]
#[cfg_attr(kani, kani::unwind(9))]
pub fn c06_org_any_address() {
    let next: u8 = kani::any();
    let addr: u8 = kani::any();
    kani::assume(addr < next || addr - next <= 6);
    let st = step(next, &Instruction::AsmOrigin(addr));
    assert!(st.next_addr == addr, ".ORG sets the counter");
    kani::cover!(addr < next, "backward origin");
    core::mem::forget(st);
}

/// Residual of the above with the known finding (backward .ORG) excluded.
#[cfg_attr(kani, kani::proof)]
#[cfg_attr(kani, kani::stub(std::hash::RandomState::new, crate::h_tr::rs_stub))]
#[cfg_attr(kani, kani::unwind(9))]
pub fn c06_org_forward_residual() {
    let next: u8 = kani::any();
    let addr: u8 = kani::any();
    kani::assume(addr >= next && addr - next <= 6);
    let st = step(next, &Instruction::AsmOrigin(addr));
    assert!(st.next_addr == addr, ".ORG sets the counter");
    kani::cover!(addr - next == 6, "forward origin");
    core::mem::forget(st);
}

