//! C11: one assembly step == clock stepping to the next instruction boundary.
//! Concrete control (program bytes, PC, SP, branch flags concrete), symbolic data
//! (R0-R2 values, operand bytes marked symbolic, all other RAM), every phase k of the run.
use crate::kani;
use crate::st::*;
use emulator_2a_lib::machine::{Machine, MachineConfig, RegisterNumber, State, StepMode};
use emulator_2a_lib::parser::{Programsize, Stacksize};

pub struct Case<'a> {
    /// program bytes at address 0; `None` = symbolic data byte
    pub prog: &'a [Option<u8>],
    /// bytes placed at 0x10.. (subroutine / ISR targets)
    pub at10: &'a [u8],
    pub sp: u8,
    /// concrete values for R0..R2 (`None` = symbolic)
    pub regs: [Option<u8>; 3],
    /// concrete C/Z/N flags (bits 0..2)
    pub flags: u8,
    /// press the key (with MICR bit 0 and IE set) before stepping
    pub key: bool,
}

pub fn build(c: &Case) -> Machine {
    let mut m = Machine::new(MachineConfig::default());
    let ram: [u8; 0xF0] = kani::any();
    *m.raw_mut().bus_mut().memory_mut() = ram;
    let mut i = 0;
    while i < c.prog.len() {
        if let Some(b) = c.prog[i] {
            m.raw_mut().bus_mut().memory_mut()[i] = b;
        }
        i += 1;
    }
    let mut i = 0;
    while i < c.at10.len() {
        m.raw_mut().bus_mut().memory_mut()[0x10 + i] = c.at10[i];
        i += 1;
    }
    m.raw_mut().set_programsize(Programsize::Size(255));
    m.raw_mut().set_stacksize(Stacksize::_16);
    let regs = [RegisterNumber::R0, RegisterNumber::R1, RegisterNumber::R2];
    let mut i = 0;
    while i < 3 {
        let v: u8 = match c.regs[i] {
            Some(v) => v,
            None => kani::any(),
        };
        m.raw_mut().registers_mut().set(regs[i], v);
        i += 1;
    }
    m.raw_mut().registers_mut().set(RegisterNumber::R5, c.sp);
    let mut fr = c.flags & 7;
    if c.key {
        fr |= 8;
        m.raw_mut().bus_mut().write(0xF9, 1);
        m.trigger_key_interrupt();
    }
    m.raw_mut().registers_mut().set(RegisterNumber::R4, fr);
    m
}

/// Phase k: k single clock edges after reset, then one assembly step vs. explicit clock stepping.
pub fn asm_step_case(c: &Case, k: usize) {
    let mut m = build(c);
    let mut i = 0;
    while i < k {
        m.raw_mut().trigger_clock_edge();
        i += 1;
    }
    let mut r = m.clone();
    // the real step
    m.set_step_mode(StepMode::Assembly);
    m.trigger_key_clock();
    // reference: single clock edges until the next instruction boundary or a halt
    let mut left = !r.is_instruction_done();
    let mut n = 0usize;
    while n < 48 {
        if r.state() != State::Running {
            break;
        }
        if left && r.is_instruction_done() {
            break;
        }
        r.raw_mut().trigger_clock_edge();
        n += 1;
        if !r.is_instruction_done() {
            left = true;
        }
    }
    assert!(n < 48, "reference stepping reaches a boundary");
    assert!(same_core(&m, &r), "assembly step == clock stepping (CPU state)");
    assert!(same_bus_regs(m.bus(), r.bus()), "assembly step == clock stepping (I/O registers)");
    let j = any_ram_index();
    assert!(m.bus().memory()[j] == r.bus().memory()[j], "assembly step == clock stepping (RAM)");
    assert!(m.step_mode() == StepMode::Assembly, "step mode unchanged");
    assert!(m.state() != State::Running || m.is_instruction_done(), "a step ends at an instruction boundary unless halted");
    // switching the mode at this point and clock-stepping on gives the same machine as staying in Real mode
    m.set_step_mode(StepMode::Real);
    m.trigger_key_clock();
    r.raw_mut().trigger_clock_edge();
    assert!(same_core(&m, &r), "mode switch does not alter the computation");
    kani::cover!(true, "reached");
}

// ---- the stepping loop against an ARBITRARY deterministic edge function -------------------
//
// `Machine::trigger_key_clock` (Assembly) only looks at `is_instruction_done()` (MAC3 of the
// current control word) and `state()`.  The real edge is replaced (kani::stub) by an arbitrary
// deterministic automaton: abstract state id (kept in R0) -> next id, and per id a micro
// address and a run state, all three tables symbolic.  Every run prefix of at most K edges of
// the real machine is an instance (a chain of distinct ids), so the lemma covers every program,
// phase, wait pattern and halt position up to K edges per step.  R1 counts the edges.

#[cfg(kani)]
static mut EDGE_COUNT: u32 = 0;
#[cfg(kani)]
static mut EDGE_LIMIT: u32 = u32::MAX;

/// Every stubbed edge is counted; the real stepping function may never issue more edges than the
/// reference needed (turns "runs past the boundary" into an assertion failure instead of an
/// unwinding-bound failure).
#[cfg(kani)]
fn count_edge() {
    unsafe {
        EDGE_COUNT += 1;
        assert!(EDGE_COUNT <= EDGE_LIMIT, "more clock edges issued than clock-stepping to the next boundary needs");
    }
}

#[cfg(kani)]
static mut NEXT_ID: [u8; 16] = [0; 16];
#[cfg(kani)]
static mut ADDR_OF: [u16; 16] = [0; 16];
#[cfg(kani)]
static mut STATE_OF: [u8; 16] = [0; 16];

#[cfg(kani)]
fn st_of(x: u8) -> State {
    match x {
        0 => State::Running,
        1 => State::Stopped,
        _ => State::ErrorStopped,
    }
}

#[cfg(kani)]
pub fn abstract_edge(m: &mut emulator_2a_lib::machine::RawMachine) {
    count_edge();
    unsafe {
        let id = (*m.registers().get(RegisterNumber::R0) & 15) as usize;
        let nid = NEXT_ID[id] & 15;
        m.registers_mut().set(RegisterNumber::R0, nid);
        let n = *m.registers().get(RegisterNumber::R1);
        m.registers_mut().set(RegisterNumber::R1, n.wrapping_add(1));
        m.verif_set_micro_address(ADDR_OF[nid as usize] as usize);
        m.verif_set_state(st_of(STATE_OF[nid as usize]));
    }
}

#[cfg(kani)]
fn abstract_step_equiv(k: usize) {
    let next: [u8; 16] = kani::any();
    let addr: [u16; 16] = kani::any();
    let st: [u8; 16] = kani::any();
    let mut i = 0;
    while i < 16 {
        kani::assume(addr[i] < 512 && st[i] < 3);
        i += 1;
    }
    unsafe {
        NEXT_ID = next;
        ADDR_OF = addr;
        STATE_OF = st;
    }
    let id0: u8 = kani::any();
    kani::assume(id0 < 16);
    let mut m = Machine::new(MachineConfig::default());
    m.raw_mut().registers_mut().set(RegisterNumber::R0, id0);
    m.raw_mut().verif_set_micro_address(addr[id0 as usize] as usize);
    m.raw_mut().verif_set_state(st_of(st[id0 as usize]));
    let mut r = m.clone();
    // reference: single edges until the next instruction boundary or a halt
    let mut left = !r.is_instruction_done();
    let mut n = 0usize;
    let mut finished = false;
    while n <= k {
        if r.state() != State::Running || (left && r.is_instruction_done()) {
            finished = true;
            break;
        }
        r.raw_mut().trigger_clock_edge();
        n += 1;
        if !r.is_instruction_done() {
            left = true;
        }
    }
    kani::assume(finished && n <= k); // bound: the step needs at most k edges
    unsafe {
        EDGE_COUNT = 0;
        EDGE_LIMIT = n as u32;
    }
    m.set_step_mode(StepMode::Assembly);
    m.trigger_key_clock();
    assert!(m.registers().get(RegisterNumber::R1) == r.registers().get(RegisterNumber::R1), "same number of clock edges: never more, never less");
    assert!(m.registers().get(RegisterNumber::R0) == r.registers().get(RegisterNumber::R0), "same machine state as clock stepping");
    assert!(m.verif_micro_address() == r.verif_micro_address() && m.state() == r.state(), "same control state");
    assert!(m.state() != State::Running || m.is_instruction_done(), "a step ends at an instruction boundary unless halted");
    assert!(m.step_mode() == StepMode::Assembly, "step mode unchanged");
    kani::cover!(n == k, "longest step");
    kani::cover!(n == 0, "step from a halted machine");
    kani::cover!(n >= 2 && r.state() != State::Running, "halt inside the step");
}

#[cfg(kani)]
#[kani::proof]
#[kani::stub(emulator_2a_lib::machine::RawMachine::trigger_clock_edge, abstract_edge)]
#[kani::unwind(18)]
pub fn asm_step_abstract_k6() {
    abstract_step_equiv(6)
}

#[cfg(kani)]
#[kani::proof]
#[kani::stub(emulator_2a_lib::machine::RawMachine::trigger_clock_edge, abstract_edge)]
#[kani::unwind(18)]
pub fn asm_step_abstract_k12() {
    abstract_step_equiv(12)
}

// ---- long steps: a counter-shaped edge function ----------------------------------------------
//
// The longest step of the real machine is DIV with quotient 255: 2*255 + 5 micro-steps plus a
// few waits (< 530 edges).  To cover steps of that length the edge is replaced by a counter
// automaton: the machine sits at a boundary word until edge number LEAVE, is inside an
// instruction until edge number BACK, and may halt at edge number HALT (all symbolic); the edge
// count is kept in R1:R2.  Steps of up to 1100 edges are covered.

#[cfg(kani)]
static mut LEAVE: u16 = 0;
#[cfg(kani)]
static mut BACK: u16 = 0;
#[cfg(kani)]
static mut HALT: u16 = 0;
#[cfg(kani)]
static mut HALT_KIND: u8 = 0;

#[cfg(kani)]
fn count_of(m: &emulator_2a_lib::machine::RawMachine) -> u16 {
    (m.verif_ir() as u16) << 8 | m.verif_last_bus_read() as u16
}

#[cfg(kani)]
pub fn counter_edge(m: &mut emulator_2a_lib::machine::RawMachine) {
    count_edge();
    unsafe {
        // the edge count lives in two scalar fields (IR : bus latch)
        let c = count_of(m).wrapping_add(1);
        m.verif_set_ir((c >> 8) as u8);
        m.verif_set_last_bus_read(c as u8);
        // word 0x006 is a fetch word (instruction boundary), word 0x000 is not
        let inside = c >= LEAVE && c < BACK;
        m.verif_set_micro_address(if inside { 0x000 } else { 0x006 });
        if c == HALT {
            m.verif_set_state(st_of(HALT_KIND));
        }
    }
}

#[cfg(kani)]
fn long_step(max: u16) {
    let leave: u16 = kani::any();
    let back: u16 = kani::any();
    let halt: u16 = kani::any();
    let kind: u8 = kani::any();
    let c0: u16 = kani::any();
    kani::assume(leave >= 1 && leave <= 4 && back > leave && back <= max && kind >= 1 && kind <= 2);
    kani::assume(c0 < back);
    unsafe {
        LEAVE = leave;
        BACK = back;
        HALT = halt;
        HALT_KIND = kind;
    }
    let mut m = Machine::new(MachineConfig::default());
    m.raw_mut().verif_set_ir((c0 >> 8) as u8);
    m.raw_mut().verif_set_last_bus_read(c0 as u8);
    let inside = c0 >= leave && c0 < back;
    m.raw_mut().verif_set_micro_address(if inside { 0x000 } else { 0x006 });
    // closed-form reference: edges are issued until the first count c > c0 that is a halt or,
    // once the boundary has been left, a boundary again
    let stop_at = if halt > c0 && halt < back { halt } else { back };
    unsafe {
        EDGE_COUNT = 0;
        EDGE_LIMIT = (stop_at - c0) as u32;
    }
    m.set_step_mode(StepMode::Assembly);
    m.trigger_key_clock();
    let c = count_of(&m);
    assert!(c == stop_at, "the step issues exactly the edges up to the next boundary or halt: never more, never less");
    assert!(m.state() != State::Running || m.is_instruction_done(), "a step ends at an instruction boundary unless halted");
    kani::cover!(c - c0 > max / 2, "a long step");
    kani::cover!(halt > c0 && halt < back, "halt inside the step");
}

#[cfg(kani)]
#[kani::proof]
#[kani::stub(emulator_2a_lib::machine::RawMachine::trigger_clock_edge, counter_edge)]
#[kani::unwind(225)]
pub fn asm_step_long_k220() {
    long_step(220)
}

#[cfg(kani)]
#[kani::proof]
#[kani::stub(emulator_2a_lib::machine::RawMachine::trigger_clock_edge, counter_edge)]
#[kani::unwind(105)]
pub fn asm_step_long_k100() {
    long_step(100)
}

/// Real step mode: one call = exactly one clock edge (counter automaton as the edge).
#[cfg(kani)]
#[kani::proof]
#[kani::stub(emulator_2a_lib::machine::RawMachine::trigger_clock_edge, counter_edge)]
#[kani::unwind(4)]
pub fn real_step_is_one_edge() {
    unsafe {
        LEAVE = kani::any();
        BACK = kani::any();
        HALT = kani::any();
        HALT_KIND = 1;
    }
    let c0: u16 = kani::any();
    kani::assume(c0 < 60000);
    let mut m = Machine::new(MachineConfig::default());
    m.raw_mut().verif_set_ir((c0 >> 8) as u8);
    m.raw_mut().verif_set_last_bus_read(c0 as u8);
    unsafe {
        EDGE_COUNT = 0;
        EDGE_LIMIT = 1;
    }
    m.set_step_mode(StepMode::Real);
    m.trigger_key_clock();
    assert!(count_of(&m) == c0 + 1, "Real mode: one clock edge per call");
    assert!(m.step_mode() == StepMode::Real, "step mode unchanged");
    kani::cover!(true, "reached");
}
