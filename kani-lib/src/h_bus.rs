//! C10: bus address map. One-operation lemmas from a fully arbitrary `Bus`
//! (240 symbolic RAM bytes, every register, arbitrary board); address and byte symbolic.
//! Read-after-write for histories of any length follows by induction from these frames.
use crate::kani;
use crate::st::*;
use emulator_2a_lib::machine::Bus;

/// Reference map for reads, written from the table in the `Bus` doc comment
/// and property C10 (not from `Bus::read`).
fn ref_read(pre: &Bus, addr: u8) -> u8 {
    let p = pre.verif_parts();
    let b = pre.board().verif_parts();
    match addr {
        0x00..=0xEF => pre.memory()[addr as usize],
        0xF0 => b.digital_input1,
        0xF1 => b.dasr,
        0xF2 => pre.board().get_fan_period(), // value law is C14's business
        0xF3 => b.daisr,
        0xF4..=0xF8 => 0,
        0xF9 => p.misr,
        0xFA => p.uart_recv,
        0xFB => p.usr,
        0xFC => p.input_reg[0],
        0xFD => p.input_reg[1],
        0xFE => p.input_reg[2],
        0xFF => p.input_reg[3],
    }
}

#[cfg_attr(kani, kani::proof)]
pub fn bus_write_frame() {
    let mut bus = any_bus();
    let pre = bus.clone();
    let addr: u8 = kani::any();
    let byte: u8 = kani::any();
    bus.write(addr, byte);
    // RAM: exactly cell `addr` (<= 0xEF) changes; one universally quantified cell i
    let i = any_ram_index();
    let expect = if addr as usize == i { byte } else { pre.memory()[i] };
    assert!(bus.memory()[i] == expect, "ram cell");
    if addr >= 0xF0 {
        assert!(same_ram(&bus, &pre), "write to I/O address changed RAM");
    }
    let p = pre.verif_parts();
    let q = bus.verif_parts();
    // input registers are never changed by a write
    assert!(q.input_reg[0] == p.input_reg[0] && q.input_reg[1] == p.input_reg[1], "input regs");
    assert!(q.input_reg[2] == p.input_reg[2] && q.input_reg[3] == p.input_reg[3], "input regs");
    // output registers only by 0xFE / 0xFF
    assert!(q.output_reg[0] == if addr == 0xFE { byte } else { p.output_reg[0] }, "output FE");
    assert!(q.output_reg[1] == if addr == 0xFF { byte } else { p.output_reg[1] }, "output FF");
    assert!(bus.output_fe() == q.output_reg[0] && bus.output_ff() == q.output_reg[1], "getters");
    // MICR: only by 0xF9, six defined enable bits
    assert!(q.micr == if addr == 0xF9 { byte & 0x3F } else { p.micr }, "micr");
    assert!(bus.is_key_edge_int_enabled() == (q.micr & 1 == 1), "key edge enable bit");
    // status registers are read-only from the bus side
    assert!(q.misr == p.misr && q.usr == p.usr && q.uart_recv == p.uart_recv, "status regs");
    // UART registers are not part of C10's statement: only the frame (who may change them) is asserted
    if addr != 0xFB {
        assert!(q.ucr == p.ucr, "ucr frame");
    }
    if addr != 0xFA {
        assert!(q.uart_send == p.uart_send, "uart send frame");
    }
    if addr != 0xFC && addr != 0xFD {
        assert!(
            q.timer_enabled == p.timer_enabled
                && q.timer_div1 == p.timer_div1
                && q.timer_div2 == p.timer_div2
                && q.timer_div3 == p.timer_div3,
            "timer frame"
        );
    }
    // board: only 0xF0..0xF3 reach it; F0/F1 are the two output ports
    if !(0xF0..=0xF3).contains(&addr) {
        assert!(same_board(bus.board(), pre.board()), "board frame");
    }
    if addr == 0xF0 {
        assert!(*bus.board().digital_output1() == byte, "F0 -> output port 1");
        assert!(*bus.board().digital_output2() == *pre.board().digital_output2(), "F0 leaves port 2");
    }
    if addr == 0xF1 {
        assert!(*bus.board().digital_output2() == byte, "F1 -> output port 2");
        assert!(*bus.board().digital_output1() == *pre.board().digital_output1(), "F1 leaves port 1");
    }
    assert!(*bus.board().digital_input1() == *pre.board().digital_input1(), "input port untouched by writes");
    kani::cover!(addr == 0xEF, "ram top");
    kani::cover!(addr == 0xF0, "first io");
}

#[cfg_attr(kani, kani::proof)]
pub fn bus_read_map_and_purity() {
    let bus = any_bus();
    let pre = bus.clone();
    let addr: u8 = kani::any();
    let v = bus.read(addr);
    assert!(v == ref_read(&pre, addr), "read map");
    // no interior mutability: every part is bit-identical after the read
    assert!(same_bus(&bus, &pre), "read changed state");
    kani::cover!(addr == 0xF9, "misr");
    kani::cover!(addr == 0xFF, "input ff");
}

#[cfg_attr(kani, kani::proof)]
pub fn bus_read_after_write() {
    let mut bus = any_bus();
    let pre = bus.clone();
    let a: u8 = kani::any();
    let b: u8 = kani::any();
    let byte: u8 = kani::any();
    bus.write(a, byte);
    let v = bus.read(b);
    if b <= 0xEF {
        assert!(v == if a == b { byte } else { pre.memory()[b as usize] }, "RAM read after write");
    }
    if b >= 0xFC {
        // input registers are unaffected by any write
        assert!(v == ref_read(&pre, b), "input register read after write");
    }
    if b == 0xF9 {
        // a write to F9 sets the mask, a read returns the status
        assert!(v == pre.verif_parts().misr, "F9 read is the status register");
    }
    if b == 0xF0 {
        assert!(v == *pre.board().digital_input1(), "F0 read is the input port");
    }
    kani::cover!(a == b && a == 0xEF, "boundary");
}

/// Aliasing: two writes with arbitrary addresses; final RAM is the map-based
/// reference (last writer wins), and I/O writes never touch RAM.
#[cfg_attr(kani, kani::proof)]
pub fn bus_write_pair_no_alias() {
    let mut bus = any_bus();
    let pre = bus.clone();
    let a1: u8 = kani::any();
    let a2: u8 = kani::any();
    let b1: u8 = kani::any();
    let b2: u8 = kani::any();
    bus.write(a1, b1);
    bus.write(a2, b2);
    let i = any_ram_index();
    let expect = if a2 as usize == i {
        b2
    } else if a1 as usize == i {
        b1
    } else {
        pre.memory()[i]
    };
    assert!(bus.memory()[i] == expect, "ram after two writes");
    let q = bus.verif_parts();
    let p = pre.verif_parts();
    let fe = if a2 == 0xFE { b2 } else if a1 == 0xFE { b1 } else { p.output_reg[0] };
    let ff = if a2 == 0xFF { b2 } else if a1 == 0xFF { b1 } else { p.output_reg[1] };
    assert!(q.output_reg[0] == fe && q.output_reg[1] == ff, "outputs after two writes");
    kani::cover!(a1 == a2, "same address");
    kani::cover!(a1 == 0xEF && a2 == 0xF0, "straddle");
}

#[cfg_attr(kani, kani::proof)]
pub fn bus_input_setters_frame() {
    let mut bus = any_bus();
    let pre = bus.clone();
    let which: u8 = kani::any();
    kani::assume(which < 4);
    let byte: u8 = kani::any();
    match which {
        0 => bus.input_fc(byte),
        1 => bus.input_fd(byte),
        2 => bus.input_fe(byte),
        _ => bus.input_ff(byte),
    }
    let q = bus.verif_parts();
    let p = pre.verif_parts();
    let mut k = 0;
    while k < 4 {
        assert!(q.input_reg[k] == if k == which as usize { byte } else { p.input_reg[k] }, "input reg");
        k += 1;
    }
    assert!(bus.read(0xFC + which) == byte, "visible at FC+n");
    // everything else untouched
    let mut fixed = bus.clone();
    let mut pp = q;
    pp.input_reg = p.input_reg;
    fixed.verif_assemble(pp);
    assert!(same_bus(&fixed, &pre), "setter frame");
    kani::cover!(which == 3, "ff");
}

/// The `Machine`-level input setters reach exactly the corresponding bus register (C10: "input
/// registers set from outside"), and nothing else.
#[cfg_attr(kani, kani::proof)]
pub fn machine_input_setters_delegate() {
    let mut m = any_machine();
    let pre = m.clone();
    let which: u8 = kani::any();
    kani::assume(which < 4);
    let byte: u8 = kani::any();
    match which {
        0 => m.set_input_fc(byte),
        1 => m.set_input_fd(byte),
        2 => m.set_input_fe(byte),
        _ => m.set_input_ff(byte),
    }
    assert!(m.bus().read(0xFC + which) == byte, "value visible at 0xFC + n");
    let mut expect = pre.bus().clone();
    match which {
        0 => expect.input_fc(byte),
        1 => expect.input_fd(byte),
        2 => expect.input_fe(byte),
        _ => expect.input_ff(byte),
    }
    assert!(same_bus_regs(m.bus(), &expect) && same_board(m.bus().board(), expect.board()), "only that input register changes");
    assert!(same_core(&m, &pre) && same_limits(&m, &pre), "CPU untouched");
    let i = any_ram_index();
    assert!(m.bus().memory()[i] == pre.bus().memory()[i], "RAM untouched");
    kani::cover!(which == 1, "fd");
}
