#! mrasm
 .ORG 240
 NOP
