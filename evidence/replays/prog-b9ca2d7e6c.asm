#! mrasm
 NOP
 NOP
 .ORG 1
