#! mrasm
 DEC (R0+)
