#! mrasm
L:
 DEC (L)
