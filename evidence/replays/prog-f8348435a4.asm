#! mrasm
 DEC 5
