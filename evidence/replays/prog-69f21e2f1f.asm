#! mrasm
 DEC (R0)
