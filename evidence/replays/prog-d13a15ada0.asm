#! mrasm
 DEC ((R0+))
