#! mrasm
 .ORG 254
 LD R0, 1
