#! mrasm
L:
 DEC L
