#! mrasm
 DEC (5)
