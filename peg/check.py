"""C03 (language half): bounded equivalence of the line language accepted by the real pest
grammar file and the reference description, decided by an SMT solver.

  for all strings s, |s| <= N, over ASCII (without CR/LF) + one non-ASCII class:
        PEG_line(s)  <=>  REF_line(s)          (and the same for the header line)
  plus per-token lemmas (numeric ranges, label, register) at a larger bound.

sat -> concrete string -> replayed through the real `AsmParser::parse` (native helper)."""
import glob
import json
import os
import subprocess
import sys
import time

import z3

sys.path.insert(0, os.path.dirname(os.path.dirname(os.path.abspath(__file__))))
from peg import encode, mrasm_ref as ref, pest  # noqa: E402

REPO = os.environ.get("VERIF_REPO", "/repo")
GRAMMAR = REPO + "/emulator-2a-lib/syntax/mrasm.pest"
KL = os.path.join(os.path.dirname(os.path.dirname(os.path.abspath(__file__))), "kani-lib")


def real_verdicts(lines, header=False):
    exe = os.path.join(KL, "target-native", "debug", "parse_lines")
    p = subprocess.run("cd %s && cargo build --offline --bin parse_lines --target-dir target-native" % KL,
                       shell=True, stdout=subprocess.PIPE, stderr=subprocess.STDOUT, text=True,
                       env=dict(os.environ, CARGO_NET_OFFLINE="true"))
    if p.returncode != 0:
        raise RuntimeError("native helper does not build:\n" + p.stdout[-2000:])
    inp = "\n".join(lines) + "\n"
    out = subprocess.run([exe] + (["--header"] if header else []), input=inp, text=True,
                         stdout=subprocess.PIPE, timeout=300).stdout.split()
    assert len(out) == len(lines), (len(out), len(lines))
    return out


def model_string(m, sym):
    L = m.eval(sym.L, model_completion=True).as_long()
    chars = [m.eval(sym.c[i], model_completion=True).as_long() for i in range(L)]
    return "".join(chr(c) if c < 128 else "é" for c in chars), chars


def corpus():
    lines = []
    for f in sorted(glob.glob(REPO + "/programs/*.asm") + glob.glob(REPO + "/testing/programs/*.asm")):
        for ln in open(f, errors="replace").read().splitlines():
            ln = ln.rstrip("\r")
            if "\n" not in ln and len(ln) <= 60:
                lines.append(ln)
    # literals in the spirit of the repo's parser unit tests + boundary values
    lines += ["NOP", "nop", "STOP", "RET", "RETI", "EI", "DI", "PUSHF", "POPF", "CLR R0", "clr pc", "CLR PC",
              "LD R0, 255", "LD R0, 256", "LD R0,0x0FF", "LD R0, 0xFF", "LD R0, 0x100", "LD R0, 0b11111111",
              "LD R0, 0b100000000", "LD R0, 0b011111111", "LD R0, (R1)", "LD R0, (LABEL)", "LD R0, LABEL",
              "ST (0xFF), R0", "ST (R1), R0", "MOV ((R1+)), (R0+)", "MOV R0, ((R1+))", "MOV (R0), 17",
              ".DB 1,2, 3", ".DB 256", ".DW 65535", ".DW 65536", ".DW 0xFFFF, 0b1, 007", ".ORG 0x10",
              ".BYTE 4", ".EQU FOO 12", ".EQU FOO 0x12", "*STACKSIZE 32", "*STACKSIZE 33", "*STACKSIZE NOSET",
              "*PROGRAMSIZE AUTO", "*PROGRAMSIZE 12", "LOOP:", "loop: ; x", "RESULT:", "SPAM:", "PCX:", "_x1:",
              "JR LOOP", "JMP LOOP", "CALL F", "DEC R0", "DEC (R0)", "DEC 5", "LDSP 0xEF", "LDFR (R0+)",
              "BITS (0xF9), 1", "CMP R0, R1", "ADD R0, R1", "ADD R0,R1", "ADD R0 ,R1", "ADD  R0,  R1",
              "  NOP  ; c", "NOP;c", "NOP ; é", ";", "", " ", "\t", "X", "R0", "LD", "LD R0", "LD R0,",
              "PUSH R4", "POP R3", "LSL R1", "RLC R2", "TST r3", "INC R0 R1", "L: NOP"]
    seen, out = set(), []
    for l in lines:
        if l not in seen:
            seen.add(l)
            out.append(l)
    return out


def run(tier, n_line, n_tok, timeout_s):
    t0 = time.time()
    res = {"queries": [], "violations": [], "inconclusive": [], "validated": 0}
    try:
        rules, order = pest.parse_grammar(GRAMMAR)
    except Exception as e:  # grammar uses syntax outside the encoder's subset
        res["inconclusive"].append("cannot parse grammar: %s" % e)
        return res
    for need in ("line", "header", "constant_dec", "constant_hex", "constant_bin", "word_dec", "word_hex", "word_bin",
                 "raw_label", "register"):
        if need not in rules:
            res["inconclusive"].append("rule %s missing from the grammar" % need)
            return res
    # ---- translator validation: real parser vs concrete PEG interpreter vs SMT encoding ----
    lines = corpus()
    real = real_verdicts(lines)
    sym = encode.Sym(n_line)
    P = encode.Peg(rules, sym)
    Rf = encode.Ref(sym)
    peg_line = P.full_match("line")
    ref_line = Rf.full_match(ref.line)
    panics = [l for l, v in zip(lines, real) if v == "P"]
    for l in panics:
        res["violations"].append({"kind": "parser-panic", "line": l})
    bad = []
    nsmt = 0
    for l, v in zip(lines, real):
        chars = pest.to_chars(l)
        interp = pest.peg_match(rules, rules["line"][1], chars, 0) == len(chars)
        if (v == "A") != interp:
            bad.append(("real-vs-interpreter", l, v, interp))
        if len(chars) <= n_line:
            enc = z3.is_true(z3.simplify(z3.substitute(peg_line, *sym.concrete(chars))))
            nsmt += 1
            if enc != interp:
                bad.append(("interpreter-vs-encoding", l, interp, enc))
            # the reference must agree with the real parser on the repo's own corpus as well
            rv = z3.is_true(z3.simplify(z3.substitute(ref_line, *sym.concrete(chars))))
            if rv != (v == "A"):
                res["violations"].append({"kind": "language-mismatch", "line": l, "real": v, "reference_accepts": rv})
    res["validated"] = len(lines)
    res["validated_through_encoding"] = nsmt
    if bad:
        res["inconclusive"].append("encoder validation failed: %r" % bad[:5])
        return res

    def query(name, lhs, rhs, s_sym, must_be="unsat"):
        s = z3.Solver()
        s.set("timeout", int(timeout_s * 1000))
        s.add(s_sym.constraints())
        s.add(lhs != rhs)
        t = time.time()
        r = s.check()
        q = {"name": name, "result": str(r), "time_s": round(time.time() - t, 2), "bound": s_sym.n}
        if r == z3.sat:
            text, chars = model_string(s.model(), s_sym)
            q["string"] = text
            q["peg_accepts"] = z3.is_true(s.model().eval(lhs, model_completion=True))
        res["queries"].append(q)
        return q

    # ---- token lemmas at a larger bound ----
    st = encode.Sym(n_tok, "t")
    Pt = encode.Peg(rules, st)
    Rt = encode.Ref(st)
    tok = [("constant_dec", ref.number(10, 255)), ("constant_hex", ref.seq(ref.lit("0x"), ref.number(16, 255))),
           ("constant_bin", ref.seq(ref.lit("0b"), ref.number(2, 255))), ("word_dec", ref.number(10, 65535)),
           ("word_hex", ref.seq(ref.lit("0x"), ref.number(16, 65535))), ("word_bin", ref.seq(ref.lit("0b"), ref.number(2, 65535))),
           ("raw_label", ref.label), ("register", ref.register)]
    for name, r in tok:
        q = query("token:" + name, Pt.full_match(name), Rt.full_match(r), st)
        handle(q, res, rules, token=name)
    # ---- vacuity witness: a reference with one mnemonic removed MUST be distinguishable ----
    broken = ref.alt(*ref.instructions[1:])
    bl = ref.seq(ref.star(ref.ws), ref.opt(ref.alt(ref.seq(ref.label, ref.lit(":")), broken)), ref.star(ref.ws), ref.opt(ref.comment))
    w = query("witness:reference-without-PUSHF-must-differ", peg_line, Rf.full_match(bl), sym)
    if w["result"] != "sat":
        res["inconclusive"].append("vacuity witness not satisfiable: the equivalence query cannot distinguish anything")
    res["queries"][-1]["expected"] = "sat"
    # ---- the line and header languages ----
    q = query("line", peg_line, ref_line, sym)
    handle(q, res, rules)
    sh = encode.Sym(max(n_line, 12), "h")
    Ph = encode.Peg(rules, sh)
    Rh = encode.Ref(sh)
    q = query("header", Ph.full_match("header"), Rh.full_match(ref.header), sh)
    handle(q, res, rules, header=True)
    res["wall_s"] = round(time.time() - t0, 1)
    return res


def handle(q, res, rules, token=None, header=False):
    if q["result"] == "unsat":
        return
    if q["result"] != "sat":
        res["inconclusive"].append("query %s: %s (solver gave up after %ss)" % (q["name"], q["result"], q["time_s"]))
        return
    text = q["string"]
    if token:
        # replay through the public API where the token has a unique context
        ctx = {"constant_dec": ".DB %s", "constant_hex": ".DB %s", "constant_bin": ".DB %s", "word_dec": ".DW %s",
               "word_hex": ".DW %s", "word_bin": ".DW %s", "raw_label": "%s:", "register": "CLR %s"}[token]
        line = ctx % text
        v = real_verdicts([line])[0]
        q["replay_line"] = line
        q["real"] = v
        if (v == "A") == q["peg_accepts"]:
            res["violations"].append({"kind": "token-language-mismatch", "token": token, "string": text, "line": line,
                                      "real": v, "reference_accepts": not q["peg_accepts"]})
        else:
            res["inconclusive"].append("token %s: counterexample %r does not reproduce (real=%s, encoding=%s)"
                                       % (token, text, v, q["peg_accepts"]))
        return
    v = real_verdicts([text], header=header)[0]
    q["real"] = v
    if v == "P":
        res["violations"].append({"kind": "parser-panic", "line": text})
    elif (v == "A") == q["peg_accepts"]:
        res["violations"].append({"kind": "language-mismatch", "line": text, "header": header, "real": v,
                                  "reference_accepts": not q["peg_accepts"]})
    else:
        res["inconclusive"].append("counterexample %r does not reproduce (real=%s, encoding=%s)" % (text, v, q["peg_accepts"]))


if __name__ == "__main__":
    tier = sys.argv[1] if len(sys.argv) > 1 else "quick"
    n_line, n_tok, tmo = (9, 14, 600) if tier == "quick" else (12, 20, 3000)
    r = run(tier, n_line, n_tok, tmo)
    json.dump(r, sys.stdout, indent=1)
