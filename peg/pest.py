"""Parser for the subset of pest's grammar meta-syntax used by mrasm.pest, a concrete PEG
interpreter (used to validate the SMT encoding against the real parser), and helpers."""
import re


class Node:
    __slots__ = ("kind", "args", "id")
    _n = 0

    def __init__(self, kind, *args):
        self.kind = kind
        self.args = args
        Node._n += 1
        self.id = Node._n

    def __repr__(self):
        return "%s%r" % (self.kind, self.args)


BUILTINS = {"NEWLINE", "ANY", "SOI", "EOI", "ASCII_BIN_DIGIT", "ASCII_HEX_DIGIT", "ASCII_ALPHA",
            "ASCII_ALPHANUMERIC", "ASCII_DIGIT"}

TOKEN = re.compile(r"""
    (?P<ws>\s+|//[^\n]*)
  | (?P<istr>\^"(?:[^"\\]|\\.)*")
  | (?P<str>"(?:[^"\\]|\\.)*")
  | (?P<chr>'(?:[^'\\]|\\.)')
  | (?P<ident>[A-Za-z_][A-Za-z0-9_]*)
  | (?P<rep>\{\s*\d*\s*(?:,\s*\d*\s*)?\})
  | (?P<op>\.\.|[=~|*+?!&(){}_@$])
""", re.X)


def tokenize(text):
    pos = 0
    out = []
    while pos < len(text):
        m = TOKEN.match(text, pos)
        if not m:
            raise SyntaxError("pest grammar: cannot tokenize at %r" % text[pos:pos + 30])
        pos = m.end()
        k = m.lastgroup
        if k == "ws":
            continue
        out.append((k, m.group(k)))
    return out


def unescape(s):
    return bytes(s, "utf-8").decode("unicode_escape")


class GrammarParser:
    def __init__(self, text):
        self.t = tokenize(text)
        self.i = 0

    def peek(self, k=0):
        return self.t[self.i + k] if self.i + k < len(self.t) else (None, None)

    def eat(self, val=None, kind=None):
        k, v = self.peek()
        if (val is not None and v != val) or (kind is not None and k != kind):
            raise SyntaxError("pest grammar: expected %r/%r, got %r" % (val, kind, v))
        self.i += 1
        return v

    def rules(self):
        rules = {}
        order = []
        while self.peek()[0] is not None:
            name = self.eat(kind="ident")
            self.eat("=")
            mod = ""
            if self.peek()[1] in ("_", "@", "$", "!"):
                mod = self.eat()
            # rule body is delimited by { } ; the tokenizer may have lexed "{" as op
            self.eat("{")
            e = self.expr()
            self.eat("}")
            rules[name] = (mod, e)
            order.append(name)
        return rules, order

    def expr(self):
        alts = [self.seq()]
        while self.peek()[1] == "|":
            self.eat("|")
            alts.append(self.seq())
        return alts[0] if len(alts) == 1 else Node("choice", *alts)

    def seq(self):
        items = [self.prefix()]
        while self.peek()[1] == "~":
            self.eat("~")
            items.append(self.prefix())
        return items[0] if len(items) == 1 else Node("seq", *items)

    def prefix(self):
        if self.peek()[1] == "!":
            self.eat("!")
            return Node("not", self.prefix())
        if self.peek()[1] == "&":
            self.eat("&")
            return Node("and", self.prefix())
        return self.postfix()

    def postfix(self):
        e = self.atom()
        while True:
            k, v = self.peek()
            if v == "*":
                self.eat()
                e = Node("rep", e, 0, None)
            elif v == "+":
                self.eat()
                e = Node("rep", e, 1, None)
            elif v == "?":
                self.eat()
                e = Node("rep", e, 0, 1)
            elif k == "rep":
                self.eat()
                inner = v.strip("{} \t")
                if "," in inner:
                    lo, hi = inner.split(",")
                    lo = int(lo) if lo.strip() else 0
                    hi = int(hi) if hi.strip() else None
                else:
                    lo = hi = int(inner)
                e = Node("rep", e, lo, hi)
            else:
                return e

    def atom(self):
        k, v = self.peek()
        if v == "(":
            self.eat("(")
            e = self.expr()
            self.eat(")")
            return e
        if k == "str":
            self.eat()
            return Node("lit", unescape(v[1:-1]), False)
        if k == "istr":
            self.eat()
            return Node("lit", unescape(v[2:-1]), True)
        if k == "chr":
            self.eat()
            lo = unescape(v[1:-1])
            if self.peek()[1] == "..":
                self.eat("..")
                hi = unescape(self.eat(kind="chr")[1:-1])
                return Node("range", lo, hi)
            return Node("lit", lo, False)
        if k == "ident":
            self.eat()
            return Node("ref", v)
        raise SyntaxError("pest grammar: unexpected token %r" % (v,))


def parse_grammar(path):
    text = open(path).read()
    rules, order = GrammarParser(text).rules()
    for name, (mod, e) in rules.items():
        check_refs(e, rules)
    return rules, order


def check_refs(e, rules):
    if e.kind == "ref":
        if e.args[0] not in rules and e.args[0] not in BUILTINS:
            raise SyntaxError("pest grammar: unknown rule %s" % e.args[0])
    for a in e.args:
        if isinstance(a, Node):
            check_refs(a, rules)


# ---------------------------------------------------------------------------
# concrete PEG interpreter; text is a list of "characters" (ints; 128 = any non-ASCII char)

NONASCII = 128


def builtin_match(name, s, i):
    if name == "SOI":
        return i if i == 0 else None
    if name == "EOI":
        return i if i == len(s) else None
    if name == "NEWLINE":
        if i < len(s) and s[i] == 10:
            return i + 1
        if i + 1 < len(s) and s[i] == 13 and s[i + 1] == 10:
            return i + 2
        if i < len(s) and s[i] == 13:
            return i + 1
        return None
    if i >= len(s):
        return None
    c = s[i]
    ok = {
        "ANY": True,
        "ASCII_BIN_DIGIT": c in (48, 49),
        "ASCII_DIGIT": 48 <= c <= 57,
        "ASCII_HEX_DIGIT": 48 <= c <= 57 or 65 <= c <= 70 or 97 <= c <= 102,
        "ASCII_ALPHA": 65 <= c <= 90 or 97 <= c <= 122,
        "ASCII_ALPHANUMERIC": 48 <= c <= 57 or 65 <= c <= 90 or 97 <= c <= 122,
    }[name]
    return i + 1 if ok else None


def peg_match(rules, e, s, i):
    """Returns end position or None (PEG semantics: ordered choice, greedy, no backtracking into repetitions)."""
    k = e.kind
    if k == "lit":
        text, ci = e.args
        j = i
        for ch in text:
            if j >= len(s):
                return None
            c = s[j]
            if ci and ch.isalpha():
                if c not in (ord(ch.lower()), ord(ch.upper())):
                    return None
            elif c != ord(ch):
                return None
            j += 1
        return j
    if k == "range":
        if i < len(s) and ord(e.args[0]) <= s[i] <= ord(e.args[1]):
            return i + 1
        return None
    if k == "ref":
        name = e.args[0]
        if name in BUILTINS:
            return builtin_match(name, s, i)
        return peg_match(rules, rules[name][1], s, i)
    if k == "seq":
        j = i
        for a in e.args:
            j = peg_match(rules, a, s, j)
            if j is None:
                return None
        return j
    if k == "choice":
        for a in e.args:
            j = peg_match(rules, a, s, i)
            if j is not None:
                return j
        return None
    if k == "not":
        return i if peg_match(rules, e.args[0], s, i) is None else None
    if k == "and":
        return i if peg_match(rules, e.args[0], s, i) is not None else None
    if k == "rep":
        inner, lo, hi = e.args
        j = i
        n = 0
        while hi is None or n < hi:
            j2 = peg_match(rules, inner, s, j)
            if j2 is None:
                break
            n += 1
            if j2 == j:
                break  # empty match: stop (pest would loop; not present in this grammar)
            j = j2
        return j if n >= lo else None
    raise ValueError(k)


def to_chars(text):
    return [ord(c) if ord(c) < 128 else NONASCII for c in text]
