"""SMT encodings over a symbolic string c[0..N) of symbolic length L <= N.

* `Peg`: PEG semantics of a pest grammar (ordered choice, greedy repetition, lookahead) as a
  function (ok, end) of the start position - built from the parsed grammar file itself.
* `Ref`: set-of-end-positions (CFG / regular-language) semantics of the reference description.

Characters are small integers: 0..127 ASCII, 128 = "some non-ASCII character".
"""
import z3

from .pest import BUILTINS, NONASCII


class Sym:
    """Symbolic input string."""

    def __init__(self, n, name="c"):
        self.n = n
        self.c = [z3.Int("%s%d" % (name, i)) for i in range(n)]
        self.L = z3.Int(name + "_len")

    def constraints(self, forbid=(10, 13)):
        cs = [self.L >= 0, self.L <= self.n]
        for ch in self.c:
            cs.append(z3.And(ch >= 0, ch <= NONASCII))
            for f in forbid:
                cs.append(ch != f)
        return cs

    def concrete(self, chars):
        """Substitution list fixing the string to `chars`."""
        assert len(chars) <= self.n
        sub = [(self.L, z3.IntVal(len(chars)))]
        for i in range(self.n):
            sub.append((self.c[i], z3.IntVal(chars[i] if i < len(chars) else 0)))
        return sub


def char_in(c, name):
    dig = z3.And(c >= 48, c <= 57)
    up = z3.And(c >= 65, c <= 90)
    lo = z3.And(c >= 97, c <= 122)
    return {
        "ANY": z3.BoolVal(True),
        "ASCII_BIN_DIGIT": z3.Or(c == 48, c == 49),
        "ASCII_DIGIT": dig,
        "ASCII_HEX_DIGIT": z3.Or(dig, z3.And(c >= 65, c <= 70), z3.And(c >= 97, c <= 102)),
        "ASCII_ALPHA": z3.Or(up, lo),
        "ASCII_ALPHANUMERIC": z3.Or(dig, up, lo),
    }[name]


class Peg:
    """(ok, end) of every grammar expression at every concrete start position 0..N.
    `end` is represented one-hot: ends[j] <=> the match ends at j (exactly one true iff ok)."""

    def __init__(self, rules, sym):
        self.rules = rules
        self.s = sym
        self.n = sym.n
        self.memo = {}

    def fail(self):
        return [z3.BoolVal(False)] * (self.n + 1)

    def at(self, e, i):
        """list of N+1 Bools: match of e started at i ends at j."""
        key = (e.id, i)
        if key in self.memo:
            return self.memo[key]
        r = self._at(e, i)
        r = [z3.simplify(x) for x in r]
        self.memo[key] = r
        return r

    def in_range(self, i):
        return i < self.s.L if i < self.n else z3.BoolVal(False)

    def _at(self, e, i):
        n = self.n
        s = self.s
        k = e.kind
        if k == "lit":
            text, ci = e.args
            if i + len(text) > n:
                return self.fail()
            conds = [z3.IntVal(i + len(text)) <= s.L]
            for d, ch in enumerate(text):
                c = s.c[i + d]
                if ci and ch.isalpha():
                    conds.append(z3.Or(c == ord(ch.lower()), c == ord(ch.upper())))
                else:
                    conds.append(c == ord(ch))
            r = self.fail()
            r[i + len(text)] = z3.And(*conds)
            return r
        if k == "range":
            r = self.fail()
            if i < n:
                r[i + 1] = z3.And(self.in_range(i), s.c[i] >= ord(e.args[0]), s.c[i] <= ord(e.args[1]))
            return r
        if k == "ref":
            name = e.args[0]
            if name in BUILTINS:
                return self.builtin(name, i)
            return self.at(self.rules[name][1], i)
        if k == "seq":
            cur = self.fail()
            cur[i] = z3.BoolVal(True)
            for a in e.args:
                nxt = [[] for _ in range(n + 1)]
                for j in range(i, n + 1):
                    if z3.is_false(cur[j]):
                        continue
                    sub = self.at(a, j)
                    for j2 in range(j, n + 1):
                        if not z3.is_false(sub[j2]):
                            nxt[j2].append(z3.And(cur[j], sub[j2]))
                cur = [z3.Or(*x) if x else z3.BoolVal(False) for x in nxt]
                cur = [z3.simplify(x) for x in cur]
            return cur
        if k == "choice":
            res = [[] for _ in range(n + 1)]
            none_before = z3.BoolVal(True)
            for a in e.args:
                sub = self.at(a, i)
                ok = z3.Or(*sub)
                for j in range(n + 1):
                    if not z3.is_false(sub[j]):
                        res[j].append(z3.And(none_before, sub[j]))
                none_before = z3.simplify(z3.And(none_before, z3.Not(ok)))
            return [z3.Or(*x) if x else z3.BoolVal(False) for x in res]
        if k == "not":
            ok = z3.Or(*self.at(e.args[0], i))
            r = self.fail()
            r[i] = z3.Not(ok)
            return r
        if k == "and":
            ok = z3.Or(*self.at(e.args[0], i))
            r = self.fail()
            r[i] = ok
            return r
        if k == "rep":
            inner, lo, hi = e.args
            return self.rep(e, inner, lo, hi, i)
        raise ValueError(k)

    def builtin(self, name, i):
        n, s = self.n, self.s
        r = self.fail()
        if name == "SOI":
            r[i] = z3.BoolVal(i == 0)
            return r
        if name == "EOI":
            r[i] = s.L == i
            return r
        if name == "NEWLINE":
            # "\n" | "\r\n" | "\r"
            if i < n:
                lf = z3.And(self.in_range(i), s.c[i] == 10)
                cr = z3.And(self.in_range(i), s.c[i] == 13)
                crlf = z3.And(cr, self.in_range(i + 1), s.c[i + 1] == 10) if i + 1 < n else z3.BoolVal(False)
                r[i + 1] = z3.Or(lf, z3.And(cr, z3.Not(crlf)))
                if i + 2 <= n:
                    r[i + 2] = crlf
            return r
        if i < n:
            r[i + 1] = z3.And(self.in_range(i), char_in(s.c[i], name))
        return r

    def rep(self, e, inner, lo, hi, i):
        """Greedy bounded repetition.  state[k][j]: after k successful iterations we are at j."""
        n = self.n
        maxk = hi if hi is not None else n - i + 1
        # cur[j]: exactly k iterations done, now at j, and still trying
        cur = self.fail()
        cur[i] = z3.BoolVal(True)
        res = [[] for _ in range(n + 1)]
        k = 0
        while True:
            if k == maxk:
                # cannot iterate further: stop here
                for j in range(n + 1):
                    if not z3.is_false(cur[j]) and k >= lo:
                        res[j].append(cur[j])
                break
            nxt = [[] for _ in range(n + 1)]
            any_live = False
            for j in range(i, n + 1):
                if z3.is_false(cur[j]):
                    continue
                sub = self.at(inner, j)
                ok = z3.simplify(z3.Or(*sub))
                # inner fails at j -> repetition ends at j (if enough iterations)
                if k >= lo:
                    res[j].append(z3.And(cur[j], z3.Not(ok)))
                for j2 in range(j, n + 1):
                    if z3.is_false(sub[j2]):
                        continue
                    if j2 == j:
                        # empty iteration: treat as end of repetition (not present in this grammar)
                        if k + 1 >= lo:
                            res[j].append(z3.And(cur[j], sub[j2]))
                        continue
                    nxt[j2].append(z3.And(cur[j], sub[j2]))
                    any_live = True
            cur = [z3.simplify(z3.Or(*x)) if x else z3.BoolVal(False) for x in nxt]
            k += 1
            if not any_live:
                break
        return [z3.Or(*x) if x else z3.BoolVal(False) for x in res]

    def full_match(self, rule_or_expr, start=0):
        e = self.rules[rule_or_expr][1] if isinstance(rule_or_expr, str) else rule_or_expr
        ends = self.at(e, start)
        return z3.Or(*[z3.And(ends[j], self.s.L == j) for j in range(self.n + 1)])


# ---------------------------------------------------------------------------
# reference: regular / context-free description with SET semantics (unordered choice)

class R:
    """Reference grammar combinators (plain data)."""

    def __init__(self, kind, *args):
        self.kind = kind
        self.args = args
        R._n = getattr(R, "_n", 0) + 1
        self.id = R._n


def lit(t):
    return R("lit", t, False)


def ilit(t):
    return R("lit", t, True)


def seq(*a):
    return R("seq", *a)


def alt(*a):
    return R("alt", *a)


def star(a):
    return R("star", a)


def plus(a):
    return seq(a, star(a))


def opt(a):
    return alt(R("eps"), a)


def cls(name):
    return R("cls", name)


def number(base, maxval):
    """digits of `base`, at least one, denoting a value <= maxval (any number of leading zeros)."""
    return R("num", base, maxval)


def ident_not_reserved():
    return R("label")


class Ref:
    def __init__(self, sym):
        self.s = sym
        self.n = sym.n
        self.memo = {}

    def ends(self, e, i):
        key = (e.id, i)
        if key not in self.memo:
            self.memo[key] = [z3.simplify(x) for x in self._ends(e, i)]
        return self.memo[key]

    def fail(self):
        return [z3.BoolVal(False)] * (self.n + 1)

    def inr(self, i):
        return i < self.s.L if i < self.n else z3.BoolVal(False)

    def _ends(self, e, i):
        n, s = self.n, self.s
        k = e.kind
        r = self.fail()
        if k == "eps":
            r[i] = z3.BoolVal(True)
            return r
        if k == "lit":
            text, ci = e.args
            if i + len(text) > n:
                return r
            conds = [z3.IntVal(i + len(text)) <= s.L]
            for d, ch in enumerate(text):
                c = s.c[i + d]
                if ci and ch.isalpha():
                    conds.append(z3.Or(c == ord(ch.lower()), c == ord(ch.upper())))
                else:
                    conds.append(c == ord(ch))
            r[i + len(text)] = z3.And(*conds)
            return r
        if k == "cls":
            if i < n:
                name = e.args[0]
                c = s.c[i]
                if name == "ws":
                    cond = z3.Or(c == 32, c == 9)
                elif name == "notnl":
                    cond = z3.And(c != 10, c != 13)
                else:
                    cond = char_in(c, name)
                r[i + 1] = z3.And(self.inr(i), cond)
            return r
        if k == "seq":
            cur = self.fail()
            cur[i] = z3.BoolVal(True)
            for a in e.args:
                nxt = [[] for _ in range(n + 1)]
                for j in range(i, n + 1):
                    if z3.is_false(cur[j]):
                        continue
                    sub = self.ends(a, j)
                    for j2 in range(j, n + 1):
                        if not z3.is_false(sub[j2]):
                            nxt[j2].append(z3.And(cur[j], sub[j2]))
                cur = [z3.simplify(z3.Or(*x)) if x else z3.BoolVal(False) for x in nxt]
            return cur
        if k == "alt":
            res = [[] for _ in range(n + 1)]
            for a in e.args:
                sub = self.ends(a, i)
                for j in range(n + 1):
                    if not z3.is_false(sub[j]):
                        res[j].append(sub[j])
            return [z3.Or(*x) if x else z3.BoolVal(False) for x in res]
        if k == "star":
            # least fixpoint: reach[j] for j >= i (inner must consume at least one char)
            reach = self.fail()
            reach[i] = z3.BoolVal(True)
            for j in range(i, n + 1):
                if z3.is_false(reach[j]):
                    continue
                sub = self.ends(e.args[0], j)
                for j2 in range(j + 1, n + 1):
                    if not z3.is_false(sub[j2]):
                        reach[j2] = z3.simplify(z3.Or(reach[j2], z3.And(reach[j], sub[j2])))
            return reach
        if k == "num":
            base, maxval = e.args
            val = z3.IntVal(0)
            alld = z3.BoolVal(True)
            for j in range(i, n):
                c = s.c[j]
                if base == 2:
                    isd = z3.Or(c == 48, c == 49)
                    dv = c - 48
                elif base == 10:
                    isd = z3.And(c >= 48, c <= 57)
                    dv = c - 48
                else:
                    isd = z3.Or(z3.And(c >= 48, c <= 57), z3.And(c >= 65, c <= 70), z3.And(c >= 97, c <= 102))
                    dv = z3.If(c <= 57, c - 48, z3.If(c <= 70, c - 55, c - 87))
                alld = z3.And(alld, self.inr(j), isd)
                val = val * base + dv
                r[j + 1] = z3.And(alld, val <= maxval)
            return r
        if k == "label":
            # identifier [A-Za-z_][A-Za-z0-9_]* that does not START with R, PC or SP (any case)
            if i >= n:
                return r
            c0 = s.c[i]
            first = z3.And(self.inr(i), z3.Or(char_in(c0, "ASCII_ALPHA"), c0 == 95))
            not_r = z3.And(c0 != 82, c0 != 114)
            if i + 1 < n:
                c1 = s.c[i + 1]
                two = self.inr(i + 1)
                pc = z3.And(two, z3.Or(c0 == 80, c0 == 112), z3.Or(c1 == 67, c1 == 99))
                sp = z3.And(two, z3.Or(c0 == 83, c0 == 115), z3.Or(c1 == 80, c1 == 112))
            else:
                pc = sp = z3.BoolVal(False)
            head = z3.And(first, not_r, z3.Not(pc), z3.Not(sp))
            ok = head
            r[i + 1] = ok
            for j in range(i + 1, n):
                c = s.c[j]
                ok = z3.And(ok, self.inr(j), z3.Or(char_in(c, "ASCII_ALPHANUMERIC"), c == 95))
                r[j + 1] = ok
            return r
        raise ValueError(k)

    def full_match(self, e, start=0):
        ends = self.ends(e, start)
        return z3.Or(*[z3.And(ends[j], self.s.L == j) for j in range(self.n + 1)])
