"""Reference description of one mrasm source line (and of the header line), written from the
documented language: mnemonic table x operand shapes x numeric tokens.  Declarative (unordered
alternatives, set semantics) - deliberately not a transcription of the ordered PEG rules."""
from .encode import alt, cls, ident_not_reserved, ilit, lit, number, opt, plus, seq, star

ws = cls("ws")
ws1 = plus(ws)              # between mnemonic and first operand
comma = seq(lit(","), star(ws))

# numeric tokens: value range is semantic (digits of the base, value <= max), leading zeros free
byte_num = alt(seq(lit("0b"), number(2, 255)), seq(lit("0x"), number(16, 255)), number(10, 255))
word_num = alt(seq(lit("0b"), number(2, 65535)), seq(lit("0x"), number(16, 65535)), number(10, 65535))
dec_byte = number(10, 255)

label = ident_not_reserved()
register = alt(seq(ilit("R"), alt(lit("0"), lit("1"), lit("2"), lit("3"))), lit("PC"))
constant = alt(byte_num, label)
reg_di = seq(lit("("), register, lit("+"), lit(")"))
reg_ddi = seq(lit("("), reg_di, lit(")"))
memory = seq(lit("("), alt(constant, register), lit(")"))
destination = alt(register, reg_di, reg_ddi, memory)
source = alt(destination, constant)


def op(mn, *operands):
    """mnemonic (case-insensitive), then operands: first after blanks, others after ',' blanks*"""
    parts = [ilit(mn)]
    for k, o in enumerate(operands):
        parts.append(ws1 if k == 0 else comma)
        parts.append(o)
    return seq(*parts)


instructions = []
for mn in ["PUSHF", "POPF", "RET", "RETI", "STOP", "NOP", "EI", "DI"]:
    instructions.append(op(mn))
for mn in ["CLR", "INC", "NEG", "COM", "TST", "LSR", "ASR", "LSL", "RRC", "RLC", "PUSH", "POP"]:
    instructions.append(op(mn, register))
for mn in ["ADD", "ADC", "SUB", "MUL", "DIV", "AND", "OR", "XOR"]:
    instructions.append(op(mn, register, register))
instructions.append(op("DEC", source))
for mn in ["BITS", "BITC", "CMP", "BITT", "MOV"]:
    instructions.append(op(mn, destination, source))
instructions.append(op("LD", register, alt(constant, memory)))
instructions.append(op("ST", memory, register))
for mn in ["LDSP", "LDFR"]:
    instructions.append(op(mn, source))
for mn in ["JMP", "JCS", "JCC", "JZS", "JZC", "JNS", "JNC", "JR", "CALL"]:
    instructions.append(op(mn, label))
# assembler directives
instructions.append(op(".ORG", byte_num))
instructions.append(op(".BYTE", byte_num))
instructions.append(seq(ilit(".DB"), ws1, byte_num, star(seq(comma, byte_num))))
instructions.append(seq(ilit(".DW"), ws1, word_num, star(seq(comma, word_num))))
instructions.append(seq(ilit(".EQU"), ws1, label, ws1, dec_byte))
instructions.append(seq(ilit("*STACKSIZE"), ws1, alt(lit("0"), lit("16"), lit("32"), lit("48"), lit("64"), ilit("NOSET"))))
instructions.append(seq(ilit("*PROGRAMSIZE"), ws1, alt(dec_byte, ilit("AUTO"), ilit("NOSET"))))

instruction = alt(*instructions)
comment = seq(lit(";"), star(cls("notnl")))
line = seq(star(ws), opt(alt(seq(label, lit(":")), instruction)), star(ws), opt(comment))
# first line: '#! mrasm', at most one blank, optional comment
header = seq(lit("#! mrasm"), opt(ws), opt(comment))
