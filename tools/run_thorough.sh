#!/bin/bash
# Runs the thorough tier of the given properties one after the other (used with `vp run`).
cd "$(dirname "$0")/.."
[ -n "$VP_RUN_REPO" ] && export VERIF_REPO="$VP_RUN_REPO"
./setup.sh >/dev/null 2>&1
for p in "$@"; do
  s=$(date +%s)
  ./check $p --tier thorough > thorough-$p.log 2>&1
  rc=$?
  echo "$p exit=$rc wall=$(( $(date +%s) - s ))s $(grep -E "^$p tier" thorough-$p.log | tail -1)"
  grep -E "^INCONCLUSIVE|^VIOLATION|^KNOWN" thorough-$p.log | head -20
done
