#!/usr/bin/env python3
import sys, os
sys.path.insert(0, os.path.dirname(os.path.dirname(os.path.abspath(__file__))))
from vlib import props
print("| property | quick harnesses | thorough harnesses | other solver queries | bound (short) |")
print("|---|---|---|---|---|")
for pid in sorted(props.PROPS):
    sq = props.PROPS[pid]("quick")
    st = props.PROPS[pid]("thorough")
    q = len([h for h in sq["harnesses"] if h.tier == "quick"])
    t = len(st["harnesses"])
    other = "z3: 11 (tokens, witness, line, header)" if pid == "C03" else ("graph facts over the proved model" if pid in ("C04", "C09", "C11") else "-")
    print("| %s | %d | %d | %s | %s |" % (pid, q, t, other, sq.get("bounds", "")[:160].replace("|", "/")))
