#!/usr/bin/env python3
"""Markdown table of the seeded changes under /verif/seeded and which check caught them."""
import glob, json, os
rows = []
for f in sorted(glob.glob("/verif/seeded/*/meta.json")):
    m = json.load(open(f))
    sid = m["seed"]
    notes = ""
    np_ = os.path.join(os.path.dirname(f), "notes.md")
    chk = []
    for p, c in m.get("checks", {}).items():
        if c["detected"]:
            viol = [l for l in c["lines"] if l.startswith("VIOLATION")]
            h = viol[0].split("replays/")[-1].split("-")[1] if viol else ""
            chk.append("%s: **caught** (%s, %ds)" % (p, h.replace("gen.paths.", "").replace("h_", ""), c["wall_s"]))
        else:
            chk.append("%s: missed (exit %d)" % (p, c["exit"]))
    rows.append("| %s | %s | %s | %s |" % (sid, m["breaks_property"], "yes" if m.get("confirmed") else "NO", "; ".join(chk)))
print("| seed | property | confirmed (suite green, demo fails/passes) | quick check result |")
print("|---|---|---|---|")
print("\n".join(rows))
