#!/usr/bin/env python3
"""seed_eval.py <seed dir> <seed id> <property> [more properties...]
1. confirms the seeded change in a scratch worktree (suite green, demo fails with / passes without),
2. applies it to /repo, runs the property's quick check(s), undoes it,
3. files everything under /verif/seeded/<seed id>/."""
import json, os, shutil, subprocess, sys, time

def sh(cmd, **kw):
    return subprocess.run(cmd, shell=True, text=True, stdout=subprocess.PIPE, stderr=subprocess.STDOUT, **kw)

src, sid, props = sys.argv[1], sys.argv[2], sys.argv[3:]
out = "/verif/seeded/%s" % sid
os.makedirs(out, exist_ok=True)
shutil.copy(os.path.join(src, "patch.diff"), out)
shutil.copy(os.path.join(src, "seed_demo.rs"), out)
if os.path.exists(os.path.join(src, "notes.md")):
    shutil.copy(os.path.join(src, "notes.md"), out)
meta = {"seed": sid, "breaks_property": props[0], "checked_against": props, "when": time.strftime("%Y-%m-%d %H:%M")}
wt = "/tmp/wt-verify"
sh("git -C /repo worktree remove --force %s" % wt)
assert sh("git -C /repo worktree add -q %s HEAD" % wt).returncode == 0
env = "cd %s && CARGO_TARGET_DIR=/tmp/wt-verify-target CARGO_NET_OFFLINE=true" % wt
try:
    r = sh("git -C %s apply %s/patch.diff" % (wt, out))
    meta["patch_applies"] = r.returncode == 0
    t = sh(env + " cargo test --workspace --no-fail-fast --offline 2>&1 | grep -E '^test result'")
    res = t.stdout.strip().splitlines()
    meta["suite_with_change"] = res
    meta["suite_green_with_change"] = bool(res) and all(" 0 failed" in l for l in res)
    os.makedirs(os.path.join(wt, "emulator-2a-lib/tests"), exist_ok=True)
    shutil.copy(os.path.join(out, "seed_demo.rs"), os.path.join(wt, "emulator-2a-lib/tests/seed_demo.rs"))
    d1 = sh(env + " cargo test -p emulator-2a-lib --test seed_demo --offline 2>&1 | grep -E '^test result'")
    meta["demo_with_change"] = d1.stdout.strip()
    sh("git -C %s apply -R %s/patch.diff" % (wt, out))
    d2 = sh(env + " cargo test -p emulator-2a-lib --test seed_demo --offline 2>&1 | grep -E '^test result'")
    meta["demo_without_change"] = d2.stdout.strip()
    meta["confirmed"] = (meta["patch_applies"] and meta["suite_green_with_change"] and "FAILED" in meta["demo_with_change"]
                         and "ok." in meta["demo_without_change"] and " 0 failed" in meta["demo_without_change"])
finally:
    sh("git -C /repo worktree remove --force %s" % wt)
print(json.dumps(meta, indent=1))
if not meta.get("confirmed"):
    json.dump(meta, open(os.path.join(out, "meta.json"), "w"), indent=1)
    sys.exit("seed not confirmed")
# run the checks against it
assert sh("git -C /repo status --porcelain -- emulator-2a-lib emulator-2a").stdout.strip() == "", "/repo not clean"
meta["checks"] = {}
try:
    assert sh("git -C /repo apply %s/patch.diff" % out).returncode == 0
    for p in props:
        t0 = time.time()
        r = sh("cd /verif && ./check %s --tier quick" % p)
        lines = [l for l in r.stdout.splitlines() if l.startswith(("VIOLATION", "KNOWN-FINDING", "INCONCLUSIVE", p + " tier"))]
        meta["checks"][p] = {"exit": r.returncode, "wall_s": round(time.time() - t0), "lines": lines[:12],
                             "detected": r.returncode == 1 and any(l.startswith("VIOLATION property=%s" % p) for l in lines)}
        print(p, meta["checks"][p])
finally:
    sh("git -C /repo checkout -- .")
meta["what_it_needs"] = "see notes.md"
meta["ran"] = ["tools/seed_eval.py %s %s %s" % (src, sid, " ".join(props))]
json.dump(meta, open(os.path.join(out, "meta.json"), "w"), indent=1)
