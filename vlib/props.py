"""Per-property harness lists (see DESIGN.md section 3)."""
from .driver import Harness

ALU = "addh a nor zero add adds adc adcs lsr rr rrc asr b setc bh invc".split()


def C08(tier):
    hs = [Harness("h_alu::alu_f%02d_%s" % (i, n), key="alu.fn=%s" % n.upper(),
                  domain="a,b: all u8; carry-in: both; function %s (selector %d) concrete" % (n.upper(), i),
                  bounds="none (complete input space 2^17 per function)", timeout=120)
          for i, n in enumerate(ALU)]
    hs.append(Harness("h_alu::alu_select_decoder", key="alu.decoder",
                      domain="selector 0..15, a, b, carry-in symbolic: discriminants are the documented codes; "
                             "Z/N definitions for all 16 functions at once", timeout=120))
    return dict(
        harnesses=hs,
        bounds="no bound: 16 functions x 256 x 256 x 2 decided symbolically, loop-free code",
        assumptions=["refs::alu (9-bit arithmetic written from the documented function list) is the oracle"],
        explanation="AluOutput::from_input compared with the reference table for every function, operand pair "
                    "and carry-in by one SAT query per function.",
    )



ARB_BUS = "Bus fully arbitrary: 240 symbolic RAM bytes, input/output regs, MICR, MISR, UCR, USR, UART bytes, timer, arbitrary board (all f32 bit patterns)"
ARB_RAW = ("RawMachine fully arbitrary under Inv (micro address < 512, stack size set, no level interrupt): R0-R7, IR, "
           "micro address, pending register/flag write, key flip-flop, wait, ALU latch, bus latch, state, limits, " + ARB_BUS)


def C10(tier):
    hs = [
        Harness("h_bus::bus_write_frame", domain=ARB_BUS + "; address and byte symbolic; one universally quantified RAM cell"),
        Harness("h_bus::bus_read_map_and_purity", domain=ARB_BUS + "; address symbolic; all parts compared bitwise before/after"),
        Harness("h_bus::bus_read_after_write", domain=ARB_BUS + "; write address, read address, byte symbolic"),
        Harness("h_bus::bus_write_pair_no_alias", domain=ARB_BUS + "; two write addresses and bytes symbolic (all 65 536 ordered pairs at once)"),
        Harness("h_bus::bus_input_setters_frame", domain=ARB_BUS + "; which setter and byte symbolic"),
    ]
    return dict(
        harnesses=hs,
        bounds="none: single operations from an arbitrary bus state (loop-free apart from fixed-size comparisons); "
               "sequences of any length follow by induction over these frame lemmas",
        assumptions=["value read at 0xF2 is Board::get_fan_period() (its law is C14)"],
        explanation="One-operation frame lemmas for Bus::write / Bus::read / input setters against a reference address map.",
    )


def C14(tier):
    dom = "board arbitrary under the representation invariant binv (voltages in [0,5], DAC = byte/100, comparator bits consistent, fan rpm consistent); "
    hs = [
        Harness("h_board::board_new_satisfies_invariant", domain="Board::new()"),
        Harness("h_board::board_analog_input1", domain=dom + "applied voltage: all 2^32 f32 bit patterns"),
        Harness("h_board::board_analog_input2_and_temp", domain=dom + "temp or I2 setter, applied voltage: all 2^32 f32 bit patterns"),
        Harness("h_board::board_dac_writes", domain=dom + "port 1 or 2, byte symbolic"),
        Harness("h_board::board_jumpers_and_input_port", domain=dom + "J1/J2/DI1, level/byte symbolic"),
        Harness("h_board::board_uio_pins", domain=dom + "pin 1..3, level symbolic, direction symbolic"),
        Harness("h_board::board_control_writes_via_bus", domain=dom + "write to 0xF2/0xF3 through Bus::write, byte symbolic"),
        Harness("h_board::board_fan_period_law", key="board.fan-period", domain=dom + "read of 0xF2"),
        Harness("h_board::board_status_reads", domain=dom + "reads of F0/F1/F3"),
    ]
    return dict(
        harnesses=hs,
        bounds="none: every operation from every binv state; interleavings of any length by induction (binv is proved "
               "for Board::new() and preserved by each operation)",
        assumptions=["fan period compared with 255 - byte within +-1 (two float->int truncations)",
                     "UOR writes (0xF2, 00xxxxxx) set the three UIO status bits regardless of direction (observed, not demanded by the property: only the frame is asserted)",
                     "resets are outside C14's operation list (C07)"],
        explanation="Board setters and port writes against a reference model incl. the edge-interrupt rule.",
    )


def C07(tier):
    arb = "Machine fully arbitrary (" + ARB_RAW + ", step mode)"
    hs = [
        Harness("h_reset::reset_cpu", key="reset.cpu", domain=arb),
        Harness("h_reset::reset_master", key="reset.master", domain=arb),
        Harness("h_reset::load_image_le4", key="load", domain=arb + "; program image symbolic, length 0..4, limits symbolic", bounds="image <= 4 bytes, unwind 10"),
        Harness("h_reset::load_image_le8", key="load", tier="thorough", timeout=1500, domain=arb + "; image length 0..8", bounds="image <= 8 bytes"),
        Harness("h_reset::load_image_le16", key="load", tier="thorough", timeout=2400, domain=arb + "; image length 0..16", bounds="image <= 16 bytes"),
    ]
    return dict(
        harnesses=hs,
        bounds="resets: none. load: image length <= 4 (quick) / 16 (thorough) bytes in one line; longer images and multi-line programs outside",
        assumptions=["cycle-for-cycle equality after load follows from full hidden-state equality with a new machine plus determinism "
                     "of trigger_clock_edge (a &mut RawMachine method: it cannot read the step mode or anything outside the state compared)",
                     "MISR/USR/UART receive byte are not reset by anything and not compared (not readable by a RAM/FC-FF program)"],
        explanation="Field-by-field postconditions of cpu_reset / master_reset / load from an arbitrary machine.",
    )


def C05(tier):
    hs = [
        Harness("h_edge::edge_commit_and_supervision", key="stop-overrides-error",
                residual="h_edge::edge_commit_and_supervision_residual", timeout=900,
                domain=ARB_RAW + "; Running, no wait pending; 5 stack sizes x Size(n)/Auto symbolic"),
        Harness("h_edge::running_implies_legal_sp_pc_is_inductive", key="stop-overrides-error", timeout=900,
                domain=ARB_RAW + " with the invariant assumed; operation in {edge, continue, cpu reset, key interrupt} symbolic"),
        Harness("h_edge::halted_edge_is_identity", key="halt.frozen", domain=ARB_RAW + "; state != Running"),
        Harness("h_edge::halt_exits", key="halt.exits", domain=ARB_RAW + "; operation symbolic"),
    ]
    return dict(
        harnesses=hs,
        bounds="none: one clock edge / one call from every state satisfying Inv; all runs by induction",
        assumptions=["Inv: stack size != NotSet (Machine::load never stores NotSet: C07 load lemma)",
                     "limits are not changed while a program runs (set_stacksize/set_programsize/registers_mut are raw API outside the property)"],
        explanation="Supervision rule, forbidden-band formula, absorbing halt states as one-edge lemmas.",
    )


def C13(tier):
    hs = [
        Harness("h_edge::edge_never_panics_and_keeps_inv", key="panic.edge", timeout=900, domain=ARB_RAW),
        Harness("h_panic::stimuli_never_panic", key="panic.stimuli", timeout=900, domain=ARB_RAW + "; stimulus kind and arguments symbolic (f32 arguments: all bit patterns)"),
        Harness("h_panic::bus_calls_never_panic", key="panic.bus", domain=ARB_BUS + "; address, byte symbolic"),
    ]
    return dict(
        harnesses=hs,
        bounds="none: each public mutator once from every Inv state; interleavings of any length by induction (Inv preserved)",
        assumptions=["Inv: stack size != NotSet (the unreachable!() arm); set through raw_mut() it is outside the property's five stack sizes"],
        explanation="Kani's default checks (overflow, bounds, unwrap/expect, unreachable) are the assertion.",
    )


PROPS = {"C05": C05, "C07": C07, "C08": C08, "C10": C10, "C13": C13, "C14": C14}
