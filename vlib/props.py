"""Per-property harness lists (see DESIGN.md section 3)."""
from .driver import Harness

ALU = "addh a nor zero add adds adc adcs lsr rr rrc asr b setc bh invc".split()


def C08(tier):
    hs = [Harness("h_alu::alu_f%02d_%s" % (i, n), key="alu.fn=%s" % n.upper(),
                  domain="a,b: all u8; carry-in: both; function %s (selector %d) concrete" % (n.upper(), i),
                  bounds="none (complete input space 2^17 per function)", timeout=120)
          for i, n in enumerate(ALU)]
    hs.append(Harness("h_alu::alu_select_decoder", key="alu.decoder",
                      domain="selector 0..15, a, b, carry-in symbolic: discriminants are the documented codes; "
                             "Z/N definitions for all 16 functions at once", timeout=120))
    return dict(
        harnesses=hs,
        bounds="no bound: 16 functions x 256 x 256 x 2 decided symbolically, loop-free code",
        assumptions=["refs::alu (9-bit arithmetic written from the documented function list) is the oracle"],
        explanation="AluOutput::from_input compared with the reference table for every function, operand pair "
                    "and carry-in by one SAT query per function.",
    )


PROPS = {"C08": C08}
