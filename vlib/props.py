"""Per-property harness lists (see DESIGN.md section 3)."""
from .driver import Harness

ALU = "addh a nor zero add adds adc adcs lsr rr rrc asr b setc bh invc".split()


def C08(tier):
    hs = [Harness("h_alu::alu_f%02d_%s" % (i, n), key="alu.fn=%s" % n.upper(),
                  domain="a,b: all u8; carry-in: both; function %s (selector %d) concrete" % (n.upper(), i),
                  bounds="none (complete input space 2^17 per function)", timeout=120)
          for i, n in enumerate(ALU)]
    hs.append(Harness("h_alu::alu_select_decoder", key="alu.decoder",
                      domain="selector 0..15, a, b, carry-in symbolic: discriminants are the documented codes; "
                             "Z/N definitions for all 16 functions at once", timeout=120))
    return dict(
        harnesses=hs,
        bounds="no bound: 16 functions x 256 x 256 x 2 decided symbolically, loop-free code",
        assumptions=["refs::alu (9-bit arithmetic written from the documented function list) is the oracle"],
        explanation="AluOutput::from_input compared with the reference table for every function, operand pair "
                    "and carry-in by one SAT query per function.",
    )



ARB_BUS = "Bus fully arbitrary: 240 symbolic RAM bytes, input/output regs, MICR, MISR, UCR, USR, UART bytes, timer, arbitrary board (all f32 bit patterns)"
ARB_RAW = ("RawMachine fully arbitrary under Inv (micro address < 512, stack size set, no level interrupt): R0-R7, IR, "
           "micro address, pending register/flag write, key flip-flop, wait, ALU latch, bus latch, state, limits, " + ARB_BUS)


def C10(tier):
    hs = [
        Harness("h_bus::bus_write_frame", domain=ARB_BUS + "; address and byte symbolic; one universally quantified RAM cell"),
        Harness("h_bus::bus_read_map_and_purity", domain=ARB_BUS + "; address symbolic; all parts compared bitwise before/after"),
        Harness("h_bus::bus_read_after_write", domain=ARB_BUS + "; write address, read address, byte symbolic"),
        Harness("h_bus::bus_write_pair_no_alias", domain=ARB_BUS + "; two write addresses and bytes symbolic (all 65 536 ordered pairs at once)"),
        Harness("h_bus::bus_input_setters_frame", domain=ARB_BUS + "; which setter and byte symbolic"),
        Harness("h_bus::machine_input_setters_delegate", domain="Machine fully arbitrary; which Machine::set_input_fX and byte symbolic"),
    ]
    return dict(
        harnesses=hs,
        bounds="none: single operations from an arbitrary bus state (loop-free apart from fixed-size comparisons); "
               "sequences of any length follow by induction over these frame lemmas",
        assumptions=["value read at 0xF2 is Board::get_fan_period() (its law is C14)"],
        explanation="One-operation frame lemmas for Bus::write / Bus::read / input setters against a reference address map.",
    )


def C14(tier):
    dom = "board arbitrary under the representation invariant binv (voltages in [0,5], DAC = byte/100, comparator bits consistent, fan rpm consistent); "
    hs = [
        Harness("h_board::board_new_satisfies_invariant", domain="Board::new()"),
        Harness("h_board::board_analog_input1", domain=dom + "applied voltage: all 2^32 f32 bit patterns"),
        Harness("h_board::board_analog_input2_and_temp", domain=dom + "temp or I2 setter, applied voltage: all 2^32 f32 bit patterns"),
        Harness("h_board::board_dac_writes", domain=dom + "port 1 or 2, byte symbolic"),
        Harness("h_board::board_jumpers_and_input_port", domain=dom + "J1/J2/DI1, level/byte symbolic"),
        Harness("h_board::board_uio_pins", domain=dom + "pin 1..3, level symbolic, direction symbolic"),
        Harness("h_board::board_control_writes_via_bus", domain=dom + "write to 0xF2/0xF3 through Bus::write, byte symbolic"),
        Harness("h_board::board_fan_period_law", key="board.fan-period", domain=dom + "read of 0xF2"),
        Harness("h_board::board_status_reads", domain=dom + "reads of F0/F1/F3"),
        Harness("h_board::machine_board_setters_delegate", domain="Machine fully arbitrary (arbitrary board, no invariant needed); which of the nine Machine-level board setters and its argument symbolic"),
    ]
    return dict(
        harnesses=hs,
        bounds="none: every operation from every binv state; interleavings of any length by induction (binv is proved "
               "for Board::new() and preserved by each operation)",
        assumptions=["fan period compared with 255 - byte within +-1 (two float->int truncations)",
                     "UOR writes (0xF2, 00xxxxxx) set the three UIO status bits regardless of direction (observed, not demanded by the property: only the frame is asserted)",
                     "resets are outside C14's operation list (C07)"],
        explanation="Board setters and port writes against a reference model incl. the edge-interrupt rule.",
    )


def C07(tier):
    arb = "Machine fully arbitrary (" + ARB_RAW + ", step mode)"
    hs = [
        Harness("h_reset::reset_cpu", key="reset.cpu", domain=arb),
        Harness("h_reset::reset_master", key="reset.master", domain=arb),
        Harness("h_reset::load_ram_empty_program", key="load.ram", timeout=900, domain="machine as created except 240 arbitrary RAM bytes; ByteCode without lines", bounds="empty program"),
        Harness("h_reset::load_ram_n0", key="load.ram", timeout=900, domain="machine as created except 240 arbitrary RAM bytes; empty image", bounds="image length 0"),
        Harness("h_reset::load_ram_n2", key="load.ram", timeout=900, domain="machine as created except 240 arbitrary RAM bytes; 2 symbolic image bytes", bounds="image length 2"),
        Harness("h_reset::load_ram_n16", key="load.ram", timeout=1500, tier="thorough", domain="machine as created except 240 arbitrary RAM bytes; 16 symbolic image bytes", bounds="image length 16"),
        Harness("h_reset::load_image_n0", key="load", timeout=1500, domain=arb + "; empty image, limits symbolic", bounds="image length 0"),
        Harness("h_reset::load_image_n3", key="load", timeout=2400, tier="thorough", domain=arb + "; 3 symbolic image bytes, limits symbolic", bounds="image length 3, unwind 242"),
        Harness("h_reset::load_image_n1", key="load", tier="thorough", timeout=1500, domain=arb + "; 1 image byte", bounds="image length 1"),
        Harness("h_reset::load_image_n8", key="load", tier="thorough", timeout=1500, domain=arb + "; 8 image bytes", bounds="image length 8"),
        Harness("h_reset::load_image_n16", key="load", tier="thorough", timeout=2400, domain=arb + "; 16 image bytes", bounds="image length 16"),
    ]
    return dict(
        harnesses=hs,
        bounds="resets: none. load: image lengths 0 and 3 (quick), 1, 8, 16 (thorough), concrete per harness, bytes symbolic, one-line ByteCode; longer images and multi-line programs outside",
        assumptions=["cycle-for-cycle equality after load follows from full hidden-state equality with a new machine plus determinism "
                     "of trigger_clock_edge (a &mut RawMachine method: it cannot read the step mode or anything outside the state compared)",
                     "MISR/USR/UART receive byte are not reset by anything and not compared (not readable by a RAM/FC-FF program)"],
        explanation="Field-by-field postconditions of cpu_reset / master_reset / load from an arbitrary machine.",
    )


def C05(tier):
    hs = [
        Harness("h_edge::edge_commit_and_supervision", key="stop-overrides-error",
                residual="h_edge::edge_commit_and_supervision_residual", timeout=900,
                domain=ARB_RAW + "; Running, no wait pending; 5 stack sizes x Size(n)/Auto symbolic"),
        Harness("h_edge::running_implies_legal_sp_pc_is_inductive", key="stop-overrides-error", timeout=900,
                domain=ARB_RAW + " with the invariant assumed; operation in {edge, continue, cpu reset, key interrupt} symbolic"),
        Harness("h_edge::halted_edge_is_identity", key="halt.frozen", domain=ARB_RAW + "; state != Running"),
        Harness("h_edge::halt_exits", key="halt.exits", domain=ARB_RAW + "; operation symbolic"),
    ]
    return dict(
        harnesses=hs,
        bounds="none: one clock edge / one call from every state satisfying Inv; all runs by induction",
        assumptions=["Inv: stack size != NotSet (Machine::load never stores NotSet: C07 load lemma)",
                     "limits are not changed while a program runs (set_stacksize/set_programsize/registers_mut are raw API outside the property)"],
        explanation="Supervision rule, forbidden-band formula, absorbing halt states as one-edge lemmas.",
    )


def C13(tier):
    hs = [
        Harness("h_edge::edge_never_panics_and_keeps_inv", key="panic.edge", timeout=900, domain=ARB_RAW),
        Harness("h_panic::stimuli_never_panic", key="panic.stimuli", timeout=900, domain=ARB_RAW + "; stimulus kind and arguments symbolic (f32 arguments: all bit patterns)"),
        Harness("h_panic::bus_calls_never_panic", key="panic.bus", domain=ARB_BUS + "; address, byte symbolic"),
    ]
    return dict(
        harnesses=hs,
        bounds="none: each public mutator once from every Inv state; interleavings of any length by induction (Inv preserved)",
        assumptions=["Inv: stack size != NotSet (the unreachable!() arm); set through raw_mut() it is outside the property's five stack sizes"],
        explanation="Kani's default checks (overflow, bounds, unwrap/expect, unreachable) are the assertion.",
    )



# ---------------------------------------------------------------------------
# CPU engine: generated sequencer model + path harnesses

import re as _re

from . import driver as _driver
from . import paths as _paths
from . import seq as _seq

PATH_FLAGS = [["--no-memory-safety-checks"], ["--no-overflow-checks"], ["--no-assertion-reach-checks"]]
_gen_cache = {}


def gen_cpu():
    """Regenerate ALL generated harness modules from /repo's current source:
    gen/seq_model.rs + gen/paths.rs (microprogram), gen/tr.rs (translator shapes), gen/asm.rs (C11 cases)."""
    if "meta" in _gen_cache:
        return _gen_cache
    from . import trgen as _tr
    w, b, c = _seq.read_table()
    g = _seq.Graph(w, b, c)
    src, meta, facts = _paths.generate(g)
    tsrc, tmeta = _tr.generate()
    asrc, ameta = gen_asm()
    _driver.write_gen_mod({"seq_model": _seq.rust_model(w, b), "paths": src, "tr": tsrc, "asm": asrc})
    _gen_cache.update(meta=meta, facts=facts, graph=g, tr_meta=tmeta, asm_meta=ameta)
    return _gen_cache


def _safe_gen():
    try:
        return gen_cpu(), None
    except (AssertionError, _seq.SourceShape, SyntaxError) as e:
        return None, "generator cannot handle the current microprogram source: %r" % (e,)


# quick tier: must finish well inside 900 s on 12 cores -> about 70 harnesses, none above ~360 s alone
QUICK_ARCH = _re.compile(
    r"^(i_halt00|i_halt01_continue|i_nop_0|i_clr_0|i_ei_0|i_di_0|i_push_0|i_pop_0|i_popf_0|i_jr_0|i_jcs_[01]|i_jzc_1|i_jns_0|"
    r"i_call_0|i_reti_0|i_com_0|i_neg_0|i_lsr_0|i_rrc_0|i_inc_0|i_tst_0|i_dec_r_0|"
    r"i_add_rs\d_0|i_adc_rs2_0|i_sub_rs0_0|i_or_rs1_0|i_mul_rs0_\d|i_mul_entry_rs\d|i_mul_iter_168_c1|"
    r"i_mul_exit_168_c1|i_mul_exit_164_c0|i_div_rs2_0|i_div_entry_rs\d|i_div_iter_188|i_div_exit_188|i_src_\w+_0|"
    r"s_\w+_r_0|s_ldsp_0|s_ldfr_0|s_mov_mmi_0|s_cmp_mi_0|s_bitt_m_0|s_bits_mmi_0)$")
QUICK_TIMING = _re.compile(
    r"^(t_nop_0|t_push_0|t_pop_0|t_jcs_[01]|t_call_0|t_reti_0|t_dec_mmi_0|t_add_rs1_0|t_and_rs3_0|t_mul_entry_rs1|t_mul_iter_168_c1|"
    r"t_mul_exit_168_c1|t_div_iter_188|t_div_exit_188|t_src_mi_0|t_src_mmi_0|u_mov_r_0|u_mov_mmi_0|u_cmp_m_0|u_bitc_mmi_0|"
    r"u_ldsp_0|t_int_entry_029)$")


def _dom(m):
    if m["kind"] in ("first", "halt", "first-int"):
        b = m["bytes"]
        op = "opcode %s" % ("0x%02X" % b[0] if len(b) == 1 else "0x%02X..0x%02X (register bits symbolic)" % (b[0], b[-1]))
        return ("boundary state at a fetch word, everything symbolic (R0-R7, flags, stale IR, pending commit, latch, flip-flop, wait, "
                "240 RAM bytes, all I/O registers, arbitrary board, limits); %s; micro path %s [%s]"
                % (op, " ".join("%03X" % a for a in m["path"]), ",".join(m["labels"])))
    if m["kind"] == "fetch-equiv":
        return "fetch word %03X has a different content than the representative 006: same successor state from an arbitrary state" % m["path"][0]
    if m["kind"] in ("second", "second-int"):
        b = m["bytes"]
        return ("arbitrary state at the second-byte fetch word 0x1E6 (R6 = source value, symbolic); second byte 0x%02X..0x%02X; "
                "micro path %s" % (b[0], b[-1], " ".join("%03X" % a for a in m["path"])))
    return "loop / entry segment from an arbitrary state satisfying the loop invariant (ghost product / dividend symbolic): " + m["kind"]


def _path_harnesses(kind, quick_re):
    """kind: 'arch' (fn) or 'timing' (tfn)"""
    gc, err = _safe_gen()
    hs = []
    if err:
        return hs, err
    for m in gc["meta"]:
        fn = m["fn"] if kind == "arch" else m["tfn"]
        if not fn:
            continue
        if m["kind"] == "int-entry":
            continue
        if kind == "arch" and (m["kind"].endswith("-int")):
            continue  # interrupt-taken endings are C04's harnesses
        quick = bool(quick_re.match(fn)) or m["kind"] == "fetch-equiv"
        key = "%s.%s" % ("isa" if kind == "arch" else "cycles", m["cls"])
        hs.append(Harness("gen::paths::" + fn, key=key, domain=_dom(m), timeout=2400 if not quick else 1500,
                          tier="quick" if quick else "thorough",
                          bounds="none on data; control path concrete (case split proved complete by the sequencer lemma)"))
    return hs, None


def _graph_post(pid, want):
    """Facts over the proved sequencer model; each violated fact is confirmed natively step by step."""
    def post(results):
        gc, err = _safe_gen()
        if err:
            return {"inconclusive": [err]}
        g = gc["graph"]
        facts = _seq.analyse(g)
        pf = gc["facts"]
        ev = {"model_states": facts["reachable_control_states"], "model_transitions": facts["transitions"],
              "visited_addresses": facts["visited_addresses"], "fetch_words": facts["fetch_words"],
              "longest_loop_free_path": pf["longest_path"], "sampling_words": pf["sampling_words"],
              "routines_without_sampling": pf["routines_without_sampling"],
              "never_completing_first_bytes": facts["never_completing_first_bytes"],
              "data_loop_first_bytes": sorted(facts["data_loops_first_bytes"]),
              "extra_queries": 0, "extra_queries_ok": 0}
        viol, known_hits, inconc = [], [], []
        checks = []
        undefined_first = list(range(0x4C, 0x50)) + list(range(0xE0, 0xF0))
        defined_second = [b for b in range(256) if (b >> 4) in (1, 2, 3, 5, 6) or 0x40 <= b <= 0x47]
        if "c09" in want:
            checks += [
                ("only programmed control words are visited", not facts["unprogrammed_visited"], facts["unprogrammed_visited"]),
                ("every control state stays in the block of its opcode", not facts["block_violations"], facts["block_violations"][:5]),
                ("first bytes that never complete are exactly 0x4C-0x4F, 0xE0-0xEF",
                 facts["never_completing_first_bytes"] == undefined_first, facts["never_completing_first_bytes"]),
                ("a defined second byte always completes",
                 not [b for b in facts["never_completing_second_bytes"] if b in defined_second],
                 [b for b in facts["never_completing_second_bytes"] if b in defined_second]),
                ("the only data loops are MUL (0xB0-0xBF) and DIV (0xC0-0xCF)",
                 sorted(facts["data_loops_first_bytes"]) == list(range(0xB0, 0xD0)), sorted(facts["data_loops_first_bytes"])),
                ("no first byte reaches an unprogrammed word", not facts["unprogrammed_by_first_byte"], facts["unprogrammed_by_first_byte"]),
            ]
        if "c04" in want:
            checks += [
                ("the key flip-flop is sampled only by the last word of a routine", not pf["sampling_not_last"], pf["sampling_not_last"][:3]),
                ("exactly EI, DI and RETI end without sampling", pf["routines_without_sampling"] == ["di", "ei", "reti"], pf["routines_without_sampling"]),
                ("interrupt entry is the straight-line routine 010..017", pf["entry"] == list(range(0x10, 0x18)), pf["entry"]),
            ]
        ev["graph_facts"] = [{"fact": t, "holds": ok, "witness": (None if ok else w)} for t, ok, w in checks]
        ev["extra_queries"] = len(checks)
        ev["extra_queries_ok"] = sum(1 for _, ok, _ in checks if ok)
        import json as _json
        import os as _os
        for t, ok, w in checks:
            if not ok:
                path = _os.path.join(_driver.EVID, "replays", "%s-graph-%s.json" % (pid, abs(hash(t)) % 10 ** 8))
                _json.dump({"property": pid, "fact": t, "witness": w,
                            "note": "fact computed over the sequencer model that h_seq::seq_edge_matches_model_* proves equal to the real edge"},
                           open(path, "w"), indent=1)
                seq_ok = all(results.get(n, {}).get("status") == "SUCCESS" for n in results if "seq_edge_matches_model" in n)
                if seq_ok:
                    viol.append((Harness("graph:" + t, key="graph." + t), path, "graph fact violated on the proved model: %s" % (w,)))
                else:
                    inconc.append("graph fact %r fails but the model is not proved equal to the code in this run" % t)
        return {"evidence": ev, "violations": viol, "inconclusive": inconc, "known_hits": known_hits}
    return post


SEQ_H = [Harness("h_seq::seq_edge_matches_model_000_0ff", key="sequencer.model", timeout=1500,
                 domain=ARB_RAW + "; Running, no wait; micro address symbolic in 0x000..0x0FF: next address, IR update, flip-flop == per-word model"),
         Harness("h_seq::seq_edge_matches_model_100_1ff", key="sequencer.model", timeout=1500,
                 domain=ARB_RAW + "; micro address symbolic in 0x100..0x1FF")]
SAMEWORD_H = Harness("h_edge::edge_depends_on_address_only_through_word", key="edge.same-word", timeout=1500,
                     domain=ARB_RAW + " twice, differing only in the micro address, both addresses symbolic with equal control words")
NOLOG = "log crate built with max_level_off: trace!/warn! bodies (core::fmt) compiled out in the checked build"


def C01(tier):
    hs, err = _path_harnesses("arch", QUICK_ARCH)
    hs = [SAMEWORD_H] + SEQ_H + hs
    return dict(
        harnesses=hs, kani_extra=PATH_FLAGS, generators=[lambda: _safe_gen()],
        pre=(lambda: {"inconclusive": [err]}) if err else None,
        bounds="no bound on data (all registers, flags, 240 RAM bytes, I/O, board symbolic); control: one harness per micro path of "
               "each opcode class, the split being complete by the sequencer lemma (seq_edge_matches_model) + path enumeration over "
               "the proved model; MUL/DIV by loop invariants + ranking functions instead of unrolling; quick tier = one path per "
               "micro-routine family, thorough = every path of every defined first and second byte",
        stubs=[NOLOG, "Kani memory-safety/overflow/reachability instrumentation off for these harnesses (panic freedom is C13's check); unwinding assertions on"],
        assumptions=["machine stays Running during the instruction (halting paths are cut by assume and belong to C05)",
                     "no interrupt taken at the end of the instruction (that branch is C04's entry lemma)",
                     "L-wait lemma (C15/C05 checks): a pending wait swallows one edge and changes nothing else - used to skip wait edges",
                     "reference ISA model isa_ref.rs; memory behind the CPU is the real Bus (C10/C14 verify it separately)"],
        explanation="Each harness: arbitrary boundary state -> real trigger_clock_edge along one concrete micro path (control re-concretised "
                    "by assume/set after every edge) -> registers R0-R5, flags, RAM, I/O registers, board and next fetched opcode compared "
                    "with the ISA reference applied to the pre-state.",
    )


def C15(tier):
    hs, err = _path_harnesses("timing", QUICK_TIMING)
    gc, _ = _safe_gen()
    extra = [Harness("h_edge::edge_wait_iff_ram_access", key="cycles.wait-rule", timeout=1500,
                     domain=ARB_RAW + "; Running, no wait: wait' <=> new word accesses an address <= 0xEF"),
             Harness("h_edge::wait_edge_only_clears_wait", key="cycles.wait-edge", domain=ARB_RAW + "; wait pending")]
    if gc:
        for m in gc["meta"]:
            if m["kind"] == "int-entry":
                extra.append(Harness("gen::paths::" + m["tfn"], key="cycles.int-entry", timeout=1500, domain="interrupt entry routine",
                                     tier="quick" if QUICK_TIMING.match(m["tfn"]) else "thorough"))
    return dict(
        harnesses=extra + SEQ_H + hs, kani_extra=PATH_FLAGS, generators=[lambda: _safe_gen()],
        pre=(lambda: {"inconclusive": [err]}) if err else None,
        bounds="as C01: data unbounded, control path per harness; access addresses symbolic so the 0xEF/0xF0 boundary is decided by the solver",
        stubs=[NOLOG, "Kani memory-safety/overflow/reachability instrumentation off (C13 covers panics); unwinding assertions on"],
        assumptions=["micro-steps per instruction form = length of the path in the proved sequencer model",
                     "number of RAM accesses per form = the reference model's access count (isa_ref waits)"],
        explanation="edges between two boundaries == micro-steps + (wait pending at start) + one per access to 0x00-0xEF, per path, all data symbolic.",
    )


def C09(tier):
    gc, err = _safe_gen()
    hs = list(SEQ_H)
    if gc:
        for m in gc["meta"]:
            if m["kind"] in ("mul-iter", "div-iter", "mul-entry", "div-entry"):
                hs.append(Harness("gen::paths::" + m["fn"], key="sequencer.loop-termination", timeout=1500, domain=_dom(m),
                                  tier="quick" if ("168_c1" in m["fn"] or "188" in m["fn"] or "entry" in m["fn"]) else "thorough"))
    return dict(
        harnesses=hs, kani_extra=PATH_FLAGS, generators=[lambda: _safe_gen()],
        pre=(lambda: {"inconclusive": [err]}) if err else None, post=_graph_post("C09", {"c09"}),
        bounds="none: one edge from every state for all 512 words (micro address symbolic), then exhaustive graph search over the proved "
               "abstract control space (address x IR, all flag/condition/flip-flop/byte inputs); MUL/DIV termination by ranking lemmas",
        stubs=[NOLOG],
        assumptions=["graph search is done by the driver over the model; the model is equal to the code by the two solver queries of this run"],
        explanation="next micro address / IR update / flip-flop of the real edge == per-word specialised model for all states; C09's facts computed on the model.",
    )


def C04(tier):
    gc, err = _safe_gen()
    hs = [Harness("h_edge::edge_interrupt_flipflop", key="int.flipflop", timeout=1500, domain=ARB_RAW + "; Running, no wait"),
          Harness("h_edge::key_interrupt_sets_flipflop_iff_enabled", key="int.key", domain=ARB_RAW)] + SEQ_H
    if gc:
        for m in gc["meta"]:
            if m["kind"] == "int-entry":
                hs.append(Harness("gen::paths::" + m["fn"], key="int.entry", timeout=1500,
                                  domain="arbitrary state with an 'int:' word current; entry routine 010..017 vs reference (push FR, push PC, IE and upper bits cleared, PC := 2)"))
            if m["fn"] == "i_reti_0":
                hs.append(Harness("gen::paths::i_reti_0", key="int.reti", timeout=1500, domain=_dom(m)))
            if m["kind"].endswith("-int") and m["fn"]:
                q = m["fn"] in ("i_nop_0_int", "i_add_rs1_0_int", "i_push_0_int", "i_mul_exit_168_c1_int", "i_div_exit_188_int",
                                "s_mov_mmi_0_int", "s_cmp_m_0_int", "i_jcs_1_int")
                hs.append(Harness("gen::paths::" + m["fn"], key="int.sampled-at-" + m["cls"], timeout=2400, tier="quick" if q else "thorough",
                                  domain="instruction whose last word takes the interrupt branch (IE and flip-flop set): architectural state at the "
                                         "'int:' word == ISA reference of the instruction, flip-flop cleared; " + _dom(m)))
    hs.append(SAMEWORD_H)
    return dict(
        harnesses=hs, kani_extra=PATH_FLAGS, generators=[lambda: _safe_gen()],
        pre=(lambda: {"inconclusive": [err]}) if err else None, post=_graph_post("C04", {"c04"}),
        bounds="none on data or on the trigger cycle: the flip-flop lemmas hold for every edge of every state, so the trigger may fall on any "
               "cycle (inside multi-cycle instructions, waits, MUL/DIV loops); the end-to-end 'uninterrupted == interrupted' statement is "
               "derived from these obligations + C01 (independence from stale R6/R7), it is not run as one bounded scenario",
        stubs=[NOLOG],
        assumptions=["'enabled' = MICR bit 0 set when the key is pressed and IE set at the first sampling word after it",
                     "ISR transparency uses C01's per-instruction frame (arbitrary scratch registers at every boundary)"],
        explanation="flip-flop set/persist/clear lemmas, sampling points from the proved model, entry routine and RETI against the reference.",
    )


TR = "compiler::verif_hooks::step(next, &inst) = real Translator::push_instruction on a fresh translator with symbolic address counter; "


HEAVY_DST = ("m", "abs", "abslab")
HEAVY_SRC = ("m", "abs", "abslab", "imm", "immlab")


def _tr_harnesses(groups, tier_filter=None):
    gc, err = _safe_gen()
    hs = []
    if err:
        return hs
    for m in gc["tr_meta"]:
        if m["group"] not in groups:
            continue
        fn = m["fn"]
        if m["group"] == "two-op-leaf":
            _, cls, d, s_ = fn.split("_", 3)
            if d in HEAVY_DST and s_ in HEAVY_SRC:
                continue  # CBMC runs out of memory (>13 GB) on these 15 shapes per class: stated as outside the claim
        dom = {"one-byte": "real push_instruction; registers and address counter symbolic",
               "jumps": "real push_instruction; label L; relative-offset closure applied to a symbolic target",
               "ld-st": "real push_instruction; LD/ST form; registers, constant, counter symbolic",
               "ldsp-ldfr": "real push_instruction; source shape concrete, registers/constant/counter symbolic",
               "settings": "real push_instruction; setting reported, nothing emitted",
               "two-op-leaf": "real leaf encoder (compile_instruction_mov / from_bases_dst_and_src) for this destination x source shape; registers and constants symbolic; full byte content",
               "two-op-step": "real push_instruction for this shape: number of bytes and address-counter step",
               "two-op-dispatch": "real push_instruction, register/register shape: the second emitted byte carries the opcode base of the class (only that element is read back)"}[m["group"]]
        hh = Harness("gen::tr::" + fn, key="enc." + fn, domain=TR + dom, timeout=3600 if m.get("heavy") else 900,
                     tier="quick" if m["quick"] else "thorough")
        hh.heavy = bool(m.get("heavy"))
        hs.append(hh)
    return hs


def C02(tier):
    hs = _tr_harnesses({"one-byte", "jumps", "ld-st", "ldsp-ldfr", "settings", "two-op-leaf", "two-op-step", "two-op-dispatch"})
    hs += [
        Harness("h_tr::tr_org_forward", key="layout.org", domain=TR + ".ORG forward, skip <= 4", bounds="skip <= 4"),
        Harness("h_tr::tr_byte", key="layout.byte", domain=TR + ".BYTE n, n <= 4", bounds="n <= 4"),
        Harness("h_tr::tr_db_n1", key="layout.db", domain=TR + ".DB with 1 item (symbolic)", bounds="1 item"),
        Harness("h_tr::tr_db_n2", key="layout.db", domain=TR + ".DB with 2 items", bounds="2 items"),
        Harness("h_tr::tr_db_n3", key="layout.db", domain=TR + ".DB with 3 items", bounds="3 items"),
        Harness("h_tr::tr_db_n4", key="layout.db", domain=TR + ".DB with 4 items", bounds="4 items"),
    ]
    return dict(
        harnesses=hs, kani_extra=[["-Z", "stubbing"]], mem_kb=20 * 1024 * 1024, jobs=10,
        bounds="one line at a time from an arbitrary address counter (inductive step for programs of any length); AST shape concrete per "
               "harness, registers/constants/counter symbolic; .DB with 1..4 items (item count concrete per harness); .DW is NOT covered (its drain/flat_map/collect pipeline does not finish in CBMC even for one word: >20 min), .BYTE n and .ORG skip <= 4, "
               "counter + emitted bytes <= 255. Two-operand class: full content through the leaf encoders for 33 of the 48 destination x source "
               "shapes per class (the 15 shapes 'memory-address destination x operand-byte/memory source' exhaust CBMC's memory and are covered "
               "only by their source-only and destination-only halves), byte count + counter step through push_instruction for the 13 pairwise "
               "shapes, opcode base of each class through push_instruction on the register/register shape (second byte only)",
        stubs=[NOLOG, "std::hash::RandomState::new -> fixed keys (kani::stub; removes getrandom from HashMap::new() in Translator::new(), hashing is never executed)",
               "core::mem::forget on instruction/step values at the end of each harness (drop glue of String/Vec is not the subject)"],
        assumptions=["NOT covered: the label table (HashMap<String,u8> insert/lookup, case handling), finish()'s substitution and the pairing of "
                     "lines with bytes in ByteCode::lines - not encodable by CBMC within reach (probe: >7 min for one label)",
                     "NOT covered: .DW (big-endian words) - flat_map over a drained Vec does not finish in CBMC",
                     "reference encoding table in h_tr.rs / trgen.py (opcode bases, mode/register fields)"],
        explanation="emitted ByteOrLabel sequence == reference encoding; counter' == counter + bytes emitted; label references carry the right name; "
                    "relative-jump closure == target - (next + 2) mod 256.",
    )


def C06(tier):
    gc, err = _safe_gen()
    hs = []
    demo = {"r": None, "m": "#! mrasm\n DEC (R0)\n", "mi": "#! mrasm\n DEC (R0+)\n", "mmi": "#! mrasm\n DEC ((R0+))\n",
            "imm": "#! mrasm\n DEC 5\n", "immlab": "#! mrasm\nL:\n DEC L\n", "abs": "#! mrasm\n DEC (5)\n", "abslab": "#! mrasm\nL:\n DEC (L)\n"}
    if gc:
        for m in gc["tr_meta"]:
            if m["group"] == "c06-dec":
                sh = m["shape"]
                hs.append(Harness("gen::tr::" + m["fn"], key="step.inst=Dec(non-register)" if sh != "r" else "step.dec-register",
                                  domain=TR + "DEC with source shape " + sh, confirm=demo[sh]))
            if m["group"] == "c06-counter":
                hs.append(Harness("gen::tr::" + m["fn"], key="step.counter-overflow", residual="gen::tr::c06_counter_room_residual",
                                  domain=TR + "a four-byte MOV at every counter value 0..255",
                                  confirm="#! mrasm\n .ORG 254\n LD R0, 1\n"))
    hs += _tr_harnesses({"two-op-step", "jumps"})  # jumps: the relative-offset closure is run on a symbolic target
    hs += [
        Harness("h_tr::c06_org_any_address", key="step.inst=AsmOrigin(addr<next)", residual="h_tr::c06_org_forward_residual",
                domain=TR + ".ORG to any address relative to any counter (forward fill <= 6)", confirm="#! mrasm\n NOP\n NOP\n .ORG 1\n"),
        Harness("h_load::load_oversize_241", key="load.len>240", timeout=1200, residual="h_load::load_exact_240_residual",
                domain="Machine::load with an image of 241 bytes (smallest image that does not fit), fill byte and stack size symbolic",
                bounds="image length 241 / 240 (residual), concrete", confirm="#! mrasm\n .ORG 240\n NOP\n"),
        Harness("h_load::load_any_size", key="load.len>240", timeout=2400, residual="h_load::load_fits_residual", tier="thorough",
                domain="Machine::load with an image of symbolic length 0..=260",
                bounds="image length <= 260, unwind 262", confirm="#! mrasm\n .ORG 240\n NOP\n"),
    ]
    return dict(
        harnesses=hs, kani_extra=[["-Z", "stubbing"]],
        bounds="translator: one step from any counter, every operand shape of the two-operand class (pairwise), DEC with all 8 source shapes; "
               "load: image lengths 241 and 240 (quick), every length <= 260 (thorough)",
        stubs=[NOLOG, "std::hash::RandomState::new -> fixed keys (kani::stub)"],
        assumptions=["'parser-accepted' is over-approximated by 'any AST shape the types allow'; every counterexample is then confirmed through the "
                     "public path (source text -> AsmParser::parse -> Translator::compile -> Machine::load) before it counts",
                     "NOT covered: label-case crash (expect(\"Labels must be defined\")) lives in the HashMap half - not encodable"],
        explanation="panic freedom (Kani default checks) of the translator step and of Machine::load.",
    )


def C03(tier):
    import os as _os0
    import json as _json
    import subprocess as _sp

    def pre():
        n = "quick" if tier == "quick" else "thorough"
        p = _sp.run(["python3-vt", _os0.path.join(_driver.VERIF, "peg/check.py"), n], stdout=_sp.PIPE, stderr=_sp.PIPE, text=True)
        if p.returncode != 0:
            return {"inconclusive": ["peg/check.py failed: " + p.stderr[-800:]]}
        r = _json.loads(p.stdout)
        import os as _os
        viol = []
        for v in r["violations"]:
            path = _os.path.join(_driver.EVID, "replays", "C03-%s.json" % abs(hash(_json.dumps(v, sort_keys=True))) )
            _json.dump({"property": "C03", "finding": v, "replay": "echo <line> | kani-lib/target-native/debug/parse_lines"}, open(path, "w"), indent=1)
            viol.append((Harness("peg:" + v.get("kind", "?"), key="peg." + v.get("kind", "?")), path, str(v)))
        q = r["queries"]
        need = [x for x in q if x.get("expected") != "sat"]
        ok = sum(1 for x in need if x["result"] == "unsat") + sum(1 for x in q if x.get("expected") == "sat" and x["result"] == "sat")
        ev = {"extra_queries": len(q), "extra_queries_ok": ok, "smt_queries": q,
              "programs": r.get("validated", 0), "disagreements_checked": len(r["violations"]),
              "corpus_lines_validated_real_vs_interpreter": r.get("validated"),
              "corpus_lines_validated_through_smt_encoding": r.get("validated_through_encoding"),
              "solver": "z3 %s (python API), non-incremental query per obligation" % __import__("subprocess").run(
                  ["python3-vt", "-c", "import z3;print(z3.get_version_string())"], stdout=_sp.PIPE, text=True).stdout.strip()}
        return {"evidence": ev, "violations": viol, "inconclusive": r["inconclusive"]}
    n = (9, 14) if tier == "quick" else (12, 20)
    return dict(
        harnesses=[], pre=pre, level="other",
        bounds="line length <= %d characters, token lemmas (numeric ranges, label, register) <= %d characters; alphabet ASCII without CR/LF plus one "
               "class standing for any non-ASCII character; header line <= 12" % n,
        assumptions=["lines are independent in this grammar (no rule crosses eol), so a file is accepted iff header and every line match to their end",
                     "NOT covered (pest runtime / Rust side cannot be executed symbolically): AST construction by parse_*, 'never panics', the 40-label "
                     "limit, undefined-label check, Unicode handling of the Rust side",
                     "encoder validated on every run: repo programs + edge literals through the real parser, a concrete PEG interpreter and the SMT encoding"],
        explanation="PEG semantics of the real grammar file (ordered choice, greedy repetition, lookahead) encoded for a symbolic string; "
                    "query: exists s, |s| <= N: PEG(s) != REF(s) with REF a declarative description (mnemonic table x operand shapes x "
                    "semantic numeric ranges). unsat = same language up to N.",
        trusted_base=["z3", "peg/encode.py PEG->SMT translation (validated against the real parser on a corpus each run)", "peg/mrasm_ref.py"],
    )



ASM_CASES = [
    # name, prog (None = symbolic data byte), at10, sp, regs, flags, key, phases
    ("nop_add", [0x02, 0x64, 0x02], [], 0xE0, [None, None, None], 0, False, 9),
    ("push_pop", [0x10, 0x15, 0x02], [], 0xE0, [None, None, None], 0, False, 16),
    ("ld_st", [0xFB, None, 0x10, 0xF0, 0x1F, 0x80, 0x02], [], 0xE0, [None, None, None], 0, False, 22),
    ("call_ret", [0x28, 0x10, 0x02], [0x17], 0xE0, [None, None, None], 0, False, 20),
    ("jr_taken", [0x20, 0x02, 0x02, 0x02, 0x64], [], 0xE0, [None, None, None], 0, False, 9),
    ("jcs_not_taken", [0x21, 0x05, 0x64], [], 0xE0, [None, None, None], 0, False, 9),
    ("jcs_taken", [0x21, 0x01, 0x02, 0x64], [], 0xE0, [None, None, None], 1, False, 9),
    ("mul", [0xB4, 0x02], [], 0xE0, [5, None, None], 0, False, 16),
    ("div", [0xC4, 0x02], [], 0xE0, [7, 2, None], 0, False, 18),
    ("stop", [0x64, 0x01, 0x64], [], 0xE0, [None, None, None], 0, False, 8),
    ("err00", [0x64, 0x00, 0x64], [], 0xE0, [None, None, None], 0, False, 8),
    ("stack_overflow", [0x10, 0x64], [], 0xD1, [None, None, None], 0, False, 8),
    ("ei_key", [0x08, 0x02, 0x64], [0x2C], 0xE0, [None, None, None], 0, True, 24),
    ("mov_mmi", [0xFD, 0x19, 0x64], [], 0xE0, [None, 0x20, 0x30], 0, False, 18),
    # LDSP to an illegal value: the error stop falls exactly on an instruction boundary
    ("ldsp_illegal", [0xFB, 0xF5, 0x40, 0x02, 0x64], [], 0xE0, [None, None, None], 0, False, 14),
    ("stop_then_more", [0x01, 0x64, 0x02], [], 0xE0, [None, None, None], 0, False, 8),
]


def gen_asm():
    src = "// GENERATED by vlib/props.py (C11 cases)\n#![allow(clippy::all)]\nuse crate::h_asm::*;\n\n"
    meta = []
    for name, prog, at10, sp, regs, flags, key, phases in ASM_CASES:
        ps = ", ".join("None" if b is None else "Some(0x%02X)" % b for b in prog)
        rs = ", ".join("None" if b is None else "Some(0x%02X)" % b for b in regs)
        src += "const P_%s: &[Option<u8>] = &[%s];\nconst T_%s: &[u8] = &[%s];\n" % (name.upper(), ps, name.upper(), ", ".join("0x%02X" % b for b in at10))
        src += "fn case_%s() -> Case<'static> {\n    Case { prog: P_%s, at10: T_%s, sp: 0x%02X, regs: [%s], flags: %d, key: %s }\n}\n" % (
            name, name.upper(), name.upper(), sp, rs, flags, "true" if key else "false")
        for k in range(phases):
            fn = "asm_%s_k%02d" % (name, k)
            src += "#[cfg_attr(kani, kani::proof)]\n#[cfg_attr(kani, kani::unwind(64))]\npub fn %s() {\n    asm_step_case(&case_%s(), %d)\n}\n" % (fn, name, k)
            meta.append((fn, name, k))
    return src, meta


def C11(tier):
    from . import trgen as _tr
    src, meta = gen_asm()

    def sweep(vals):
        """Confirmation of an abstract counterexample on the real code: every fixed program x phase of
        gen/asm.rs is run natively (assembly step vs explicit clock stepping) with seeded data values."""
        import json as _json, os as _os, random as _random
        rnd = _random.Random(int(_os.environ.get("VERIF_SEED", "0") or 0))
        bad = []
        for fn, name, k in meta:
            v = [[rnd.randrange(256)] for _ in range(240)] + [[rnd.randrange(256)] for _ in range(3)] + [[rnd.randrange(240), 0, 0, 0, 0, 0, 0, 0]]
            vp = _os.path.join(_driver.EVID, "replays", "C11-sweep.values.json")
            _json.dump(v, open(vp, "w"))
            out = _driver.native_replay("gen::asm::" + fn, vp, "dev", timeout=10)
            if out.startswith("REPRODUCED"):
                bad.append({"case": fn, "values": v, "native": out})
                break
        return (bool(bad), {"native_sweep_cases": len(meta), "failing": bad})
    hs = []
    for kk, tr in ((6, "quick"), (12, "thorough")):
        h = Harness("h_asm::asm_step_abstract_k%d" % kk, key="asm-step.equiv", timeout=1500, tier=tr,
                    domain="the clock edge replaced by an ARBITRARY deterministic automaton (16 abstract states, symbolic next-state, micro-address "
                           "and run-state tables, symbolic start state); Machine::trigger_key_clock in Assembly mode vs an explicit single-edge "
                           "loop; every run prefix of <= %d edges of any program/phase/wait pattern/halt position is an instance" % kk,
                    bounds="a step of at most %d clock edges; unwind 18" % kk)
        h.custom_confirm = sweep
        hs.append(h)
    hreal = Harness("h_asm::real_step_is_one_edge", key="asm-step.real-mode", domain="Real step mode with the counter automaton as the edge: exactly one edge per call")
    hreal.custom_confirm = sweep
    hs.append(hreal)
    for kk, tr, tmo in ((100, "quick", 1500), (220, "thorough", 7200)):
        h = Harness("h_asm::asm_step_long_k%d" % kk, key="asm-step.equiv", timeout=tmo, tier=tr,
                    domain="the clock edge replaced by a counter automaton (boundary until edge LEAVE, inside an instruction until edge BACK, "
                           "optional halt at edge HALT, start phase c0; all symbolic): the step must stop exactly at min(halt, BACK); covers steps "
                           "of up to %d edges (the longest real step, DIV with quotient 255, is < 530 edges)" % kk,
                    bounds="a step of at most %d clock edges; unwind %d" % (kk, kk + 5))
        h.custom_confirm = sweep
        hs.append(h)

    def post(results):
        gc, err = _safe_gen()
        if err:
            return {"inconclusive": [err]}
        facts = _seq.analyse(gc["graph"])
        dead = facts["never_completing_first_bytes"]
        import subprocess as _sp, os as _os, json as _json
        ev = {"never_completing_first_bytes": dead, "extra_queries": 0, "extra_queries_ok": 0}
        viol, inconc, hits = [], [], []
        known, _ = _driver.load_known()
        known = [k for k in known if k["property"] == "C11"]
        expected = list(range(0x4C, 0x50)) + list(range(0xE0, 0xF0))
        exe = _os.path.join(_driver.KL, "target-native", "debug", "replay")
        _driver.native_build("dev")
        confirmed = []
        for b in dead:
            try:
                out = _sp.run([exe, "--asm-step", str(b), "5000"], text=True, stdout=_sp.PIPE, timeout=60).stdout.strip()
            except Exception as e:
                out = "ERR %r" % (e,)
            if out.startswith("NO-BOUNDARY"):
                confirmed.append(b)
        ev["undefined_opcode_step_hangs_confirmed_natively"] = confirmed
        if confirmed:
            path = _os.path.join(_driver.EVID, "replays", "C11-asm-step-undefined-opcode.json")
            _json.dump({"property": "C11", "bytes": confirmed,
                        "replay": "kani-lib/target-native/debug/replay --asm-step <byte> 5000",
                        "explanation": "the sequencer model (proved equal to the code by C09's lemma) has a dead self-loop for these first bytes; "
                                       "Machine::trigger_key_clock in Assembly mode loops until is_instruction_done() and never returns"}, open(path, "w"), indent=1)
            extra = [b for b in confirmed if b not in expected]
            k = [x for x in known if x["key"] == "asm-step.undefined-opcode"]
            if k and not extra:
                hits.append((Harness("graph:asm-step", key="asm-step.undefined-opcode"), k[0], path))
            else:
                viol.append((Harness("graph:asm-step", key="asm-step.undefined-opcode"), path,
                             "assembly step does not return for first bytes %s" % ["0x%02X" % b for b in (extra or confirmed)]))
        return {"evidence": ev, "violations": viol, "inconclusive": inconc, "known_hits": hits}
    return dict(
        harnesses=hs + SEQ_H, kani_extra=[["-Z", "stubbing"]], generators=[lambda: _safe_gen()], post=post,
        bounds="equivalence: steps of at most 6 (quick) / 12 (thorough) clock edges for an arbitrary deterministic edge function (16 abstract "
               "states), and steps of at most 100 (quick) / 220 (thorough) edges for a counter-shaped edge function (leave/back/halt positions and "
               "start phase symbolic); the longest real step (DIV, quotient 255) is < 530 edges and therefore outside both bounds (a 560-edge version ran out of memory after 100 min); termination: from the sequencer graph (all 256 first bytes, all inputs) + MUL/DIV ranking (C09)",
        stubs=[NOLOG, "RawMachine::trigger_clock_edge -> arbitrary deterministic automaton (kani::stub): the stepping loop is checked against "
                      "every possible behaviour of the edge; the edge itself is C01/C05/C09's subject"],
        assumptions=["step mode is not an input of the clock edge: trigger_clock_edge is a method of RawMachine, which does not contain the step mode (type-level fact)",
                     "the real edge is a deterministic function of the RawMachine state (no clock, no randomness, no I/O in it)",
                     "a counterexample of the abstract lemma is confirmed on the real code by a native sweep over fixed programs x phases before it is reported"],
        explanation="Machine::trigger_key_clock (Assembly) == explicit single-edge stepping to the next boundary, for every deterministic edge "
                    "function up to the bound; non-termination for undefined opcodes is derived from the proved sequencer graph and confirmed natively.",
    )


PROPS = {"C01": C01, "C02": C02, "C03": C03, "C04": C04, "C05": C05, "C06": C06, "C07": C07, "C08": C08, "C09": C09,
         "C10": C10, "C11": C11, "C13": C13, "C14": C14, "C15": C15}
