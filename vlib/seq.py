"""Micro-sequencer: table extraction from /repo's source, reference model, Rust emission of the
per-word specialised model (proved against the real edge by the solver), and graph analysis
over the proved relation (C09, and the case splits of C01/C04/C11/C15)."""
import os
import re

REPO_LIB = os.path.join(os.environ.get("VERIF_REPO", "/repo"), "emulator-2a-lib/src/machine")

FLAGS = ["MAC3", "MAC2", "MAC1", "MAC0", "NA4", "NA3", "NA2", "NA1", "NA0", "BUSWR", "BUSEN",
         "MRGAA3", "MRGAA2", "MRGAA1", "MRGAA0", "MRGAB3", "MRGAB2", "MRGAB1", "MRGAB0",
         "MRGWS", "MRGWE", "MALUIA", "MALUIB", "MALUS3", "MALUS2", "MALUS1", "MALUS0", "MCHFLG"]


class SourceShape(Exception):
    pass


def read_table():
    """(words[512], bit position of every control signal, comments[512]) parsed from the real source."""
    src = open(os.path.join(REPO_LIB, "microprogram_ram.rs")).read()
    bits = {}
    for m in re.finditer(r"const (\w+)\s*=\s*0b([01]+);", src):
        v = int(m.group(2), 2)
        if v and v & (v - 1) == 0:
            bits[m.group(1)] = v.bit_length() - 1
    missing = [f for f in FLAGS if f not in bits]
    if missing:
        raise SourceShape("control word flags not found: %s" % missing)
    content = open(os.path.join(REPO_LIB, "microprogram_ram_content.rs")).read()
    words, comments = [], []
    for m in re.finditer(r"Word::from_bits_truncate\(0b([01]+)\),?[ \t]*(//[^\n]*)?", content):
        words.append(int(m.group(1), 2))
        comments.append((m.group(2) or "").strip())
    if len(words) != 512:
        raise SourceShape("expected 512 control words, found %d" % len(words))
    return words, bits, comments


class Word:
    def __init__(self, w, bits):
        self.w = w
        for f in FLAGS:
            setattr(self, f.lower(), (w >> bits[f]) & 1)

    @property
    def na(self):
        return (self.na4 << 4) | (self.na3 << 3) | (self.na2 << 2) | (self.na1 << 1) | self.na0

    @property
    def ir_reset(self):
        return bool(self.mac1 and self.mac2)

    @property
    def ir_load(self):
        return bool(self.mac0 and self.mac2 and not self.mac1)

    @property
    def samples_int(self):
        return bool(self.mac1 and self.mac0 and self.na0)

    @property
    def alu(self):
        return (self.malus3 << 3) | (self.malus2 << 2) | (self.malus1 << 1) | self.malus0


# --------------------------------------------------------------------------
# reference model (hardware description: AM1..AM4, address logic 1..3)

def step(wd, ir, C, Z, N, IE, co, zo, no, iff, lbr, level=0):
    """One sequencer step with current word `wd`. Returns (addr', ir', iff')."""
    if wd.ir_reset:
        ir2 = 0x02
    elif wd.ir_load:
        ir2 = lbr
    else:
        ir2 = ir
    op00, op01, op10, op11 = ir2 & 1, (ir2 >> 1) & 1, (ir2 >> 2) & 1, (ir2 >> 3) & 1
    am2 = [1, C, Z, N][(op01 << 1) | op00]
    al3 = op10 ^ am2
    al2 = IE and (iff or level)
    sel = (wd.mac1 << 2) | (wd.mac0 << 1) | wd.na0
    am1 = [0, 1, al3, C, co, zo, no, int(bool(al2))][sel]
    am4 = op11 if wd.mac2 else wd.na1
    am3 = op10 if wd.mac2 else am1
    a2 = ((ir2 >> 4) << 5) | (wd.na4 << 4) | (wd.na3 << 3) | (wd.na2 << 2) | (am4 << 1) | am3
    iff2 = int(bool(iff and not wd.samples_int))
    return a2, ir2, iff2


def rust_model(words, bits):
    """Rust source of the per-word specialised model (the 'hints' of DESIGN 2.3)."""
    out = ["// GENERATED from /repo's microprogram_ram_content.rs by vlib/seq.py on every run.",
           "// Per-word specialisation of the reference sequencer model; proved equal to the real",
           "// clock edge for every word and every symbolic input by h_seq::seq_edge_matches_model*.",
           "#![allow(unused_variables, unused_parens, clippy::all)]",
           "",
           "pub const WORDS: [u32; 512] = [",
           ]
    for i in range(0, 512, 8):
        out.append("    " + " ".join("0x%07X," % w for w in words[i:i + 8]))
    out += ["];", "",
            "/// (next address, next IR, next flip-flop) from the word at `a` and the effective inputs:",
            "/// `ir` = IR before the edge, `c,z,n,ie` = flags after the commit phase, `co,zo,no` = ALU latch",
            "/// conditions, `iff` = key flip-flop, `lbr` = bus latch (byte read in the previous edge).",
            "pub fn model(a: usize, ir: u8, c: bool, z: bool, n: bool, ie: bool, co: bool, zo: bool, no: bool, iff: bool, lbr: u8) -> (usize, u8, bool) {",
            "    match a {"]
    groups = {}
    for a, w in enumerate(words):
        wd = Word(w, bits)
        if wd.ir_reset:
            ir2 = "0x02u8"
        elif wd.ir_load:
            ir2 = "lbr"
        else:
            ir2 = "ir"
        sel = (wd.mac1 << 2) | (wd.mac0 << 1) | wd.na0
        am2 = "(match ir2 & 3 { 0 => true, 1 => c, 2 => z, _ => n })"
        am1 = ["false", "true", "(((ir2 >> 2) & 1 == 1) ^ %s)" % am2, "c", "co", "zo", "no", "(ie && iff)"][sel]
        am4 = "((ir2 >> 3) & 1 == 1)" if wd.mac2 else ("true" if wd.na1 else "false")
        am3 = "((ir2 >> 2) & 1 == 1)" if wd.mac2 else am1
        fixed = (wd.na4 << 4) | (wd.na3 << 3) | (wd.na2 << 2)
        iff2 = "false" if wd.samples_int else "iff"
        body = ("{ let ir2: u8 = %s; ((((ir2 >> 4) as usize) << 5) | 0x%02X | ((%s as usize) << 1) | (%s as usize), ir2, %s) }"
                % (ir2, fixed, am4, am3, iff2))
        groups.setdefault(body, []).append(a)
    for body, addrs in groups.items():
        out.append("        %s => %s," % (" | ".join("0x%03X" % a for a in addrs), body))
    out += ["        _ => (0x3FFF, 0, false),", "    }", "}", ""]
    return "\n".join(out)


# --------------------------------------------------------------------------
# graph analysis over the model

class Graph:
    def __init__(self, words, bits, comments):
        self.words = words
        self.W = [Word(w, bits) for w in words]
        self.comments = comments

    def succ(self, a, ir, lbr_values=None):
        """All (a', ir') reachable in one step from control state (a, ir) for every combination of
        flag / ALU-condition / flip-flop inputs; `lbr_values` restricts the byte loaded into IR."""
        wd = self.W[a]
        out = set()
        lbrs = lbr_values if (wd.ir_load and lbr_values is not None) else ([0] if not wd.ir_load else range(256))
        sel = (wd.mac1 << 2) | (wd.mac0 << 1) | wd.na0
        for lbr in lbrs:
            # enumerate only the inputs the word can look at
            for C in (0, 1):
                for Z in (0, 1):
                    for N in (0, 1):
                        for x in (0, 1):   # stands for co/zo/no/(ie&&iff), whichever is selected
                            a2, ir2, _ = step(wd, ir, C, Z, N, x, x, x, x, 1, lbr)
                            out.add((a2, ir2))
        return out

    def succ_labeled(self, a, ir, lbr):
        """{(a', ir'): set of condition labels} for one concrete lbr."""
        wd = self.W[a]
        res = {}
        sel = (wd.mac1 << 2) | (wd.mac0 << 1) | wd.na0
        for C in (0, 1):
            for Z in (0, 1):
                for N in (0, 1):
                    for x in (0, 1):
                        a2, ir2, _ = step(wd, ir, C, Z, N, x, x, x, x, 1, lbr)
                        res.setdefault((a2, ir2), set()).add((C, Z, N, x))
        return res

    def is_fetch(self, a):
        return bool(self.W[a].mac3)

    def programmed(self, a):
        return self.words[a] != 0


def analyse(g):
    """Exhaustive exploration of the abstract control space (address x IR) under all inputs.
    Returns the facts C09 states, each computed (not assumed)."""
    facts = {}
    # 1. reachable control states from reset, every byte possible at every IR load
    start = (0, 0x02)
    seen = {start}
    todo = [start]
    edges = 0
    while todo:
        a, ir = todo.pop()
        for nxt in g.succ(a, ir):
            edges += 1
            if nxt not in seen:
                seen.add(nxt)
                todo.append(nxt)
    facts["reachable_control_states"] = len(seen)
    facts["transitions"] = edges
    visited_addrs = sorted(set(a for a, _ in seen))
    facts["visited_addresses"] = len(visited_addrs)
    facts["unprogrammed_visited"] = [a for a in visited_addrs if not g.programmed(a)]
    facts["block_violations"] = [(a, ir) for (a, ir) in seen if (a >> 5) != (ir >> 4)]
    # 2. per first byte: does the routine always get back to a fetch word?
    fetch_words = [a for a in range(512) if g.is_fetch(a)]
    second_fetch = [a for a in range(512) if g.W[a].ir_load and not g.W[a].mac3]
    facts["fetch_words"] = fetch_words
    facts["second_byte_fetch_words"] = second_fetch

    def explore(byte, from_addr):
        """Explore from the edge in which `byte` is loaded into IR by word `from_addr`.
        Returns (status, longest path, cycles, addresses, reaches_second_fetch)."""
        first = set()
        for nxt in g.succ(from_addr, 0, lbr_values=[byte]):
            first.add(nxt)
        # DFS with cycle detection; stop at fetch words (MAC3) and at second-byte fetch words
        memo = {}
        onstack = set()
        cycles = set()
        addrs = set()
        second = set()

        def dfs(node):
            a, ir = node
            addrs.add(a)
            if g.is_fetch(a):
                return 0
            if a in second_fetch:
                second.add(node)
                return 0
            if node in memo:
                return memo[node]
            if node in onstack:
                cycles.add(node)
                return 0
            onstack.add(node)
            best = 0
            for nxt in g.succ(a, ir):
                best = max(best, 1 + dfs(nxt))
            onstack.discard(node)
            memo[node] = best
            return best

        longest = 0
        for n in first:
            longest = max(longest, 1 + dfs(n))
        return longest, cycles, addrs, second

    per_byte = {}
    for b in range(256):
        longest, cycles, addrs, second = explore(b, fetch_words[0])
        per_byte[b] = {"longest": longest, "cycles": sorted(cycles), "addrs": sorted(addrs), "second": sorted(second)}
    facts["first_byte"] = per_byte
    # a self-loop that never leaves = "never completes"
    def never_completes(info, start_nodes_fn):
        return None

    # classify cycles: nodes on a cycle from which a fetch is still reachable (data loops) vs dead loops
    def can_reach_fetch(node):
        seen2 = {node}
        todo2 = [node]
        while todo2:
            a, ir = todo2.pop()
            if g.is_fetch(a) or a in second_fetch:
                return True
            for nxt in g.succ(a, ir):
                if nxt not in seen2:
                    seen2.add(nxt)
                    todo2.append(nxt)
        return False

    dead_first = []
    loops = {}
    for b, info in per_byte.items():
        dead = [n for n in info["cycles"] if not can_reach_fetch(n)]
        if dead:
            dead_first.append(b)
        live = [n for n in info["cycles"] if can_reach_fetch(n)]
        if live:
            loops[b] = live
    facts["never_completing_first_bytes"] = dead_first
    facts["data_loops_first_bytes"] = {b: [(hex(a), hex(ir)) for a, ir in v] for b, v in loops.items()}
    facts["unprogrammed_by_first_byte"] = {b: [a for a in info["addrs"] if not g.programmed(a)]
                                           for b, info in per_byte.items()
                                           if any(not g.programmed(a) for a in info["addrs"])}
    # 3. second bytes
    second_info = {}
    if second_fetch:
        sf = second_fetch[0]
        for b in range(256):
            longest, cycles, addrs, second = explore(b, sf)
            dead = [n for n in cycles if not can_reach_fetch(n)]
            second_info[b] = {"longest": longest, "dead": bool(dead),
                              "unprogrammed": [a for a in addrs if not g.programmed(a)],
                              "loops": [n for n in cycles if can_reach_fetch(n)]}
    facts["second_byte"] = second_info
    facts["never_completing_second_bytes"] = [b for b, i in second_info.items() if i["dead"] or i["unprogrammed"]]
    return facts
