"""Writes /verif/MANIFEST.json from the tables below (keeps it valid at all times)."""
import json
import os
import subprocess

VERIF = os.path.dirname(os.path.dirname(os.path.abspath(__file__)))

CHECKS = {
    "C08": dict(
        category="model_checking",
        text="Complete: each of the 16 ALU functions is compared with the documented function table for all "
             "256x256 operands and both carry-ins by one SAT query over the compiled AluOutput::from_input "
             "(loop-free, so there is no bound). This is the whole input space the property quantifies over.",
        design_ref="DESIGN.md section 3 / C08",
        note="Trusted: Kani/CBMC semantics, refs::alu (oracle written from the documented list). "
             "Counterexamples are replayed natively (dev+release) before being reported.",
        technique="bounded model checking of the compiled code (Kani 0.68 -> CBMC 6.11 -> CaDiCaL), symbolic a,b,carry-in"),
}

KANI = "bounded model checking of the compiled code (Kani 0.68 -> CBMC 6.11 -> CaDiCaL), "
CHECKS.update({
    "C10": dict(
        category="model_checking",
        text="Inductive frame lemmas decided by the solver: one Bus::write / Bus::read / input setter from a fully arbitrary bus "
             "(240 symbolic RAM bytes, all registers, arbitrary board) with symbolic address and byte, against a reference address "
             "map; pairs of writes with both addresses symbolic. No bound on the single operations; histories of any length follow "
             "by induction, which is what read-after-write over all sequences needs.",
        design_ref="DESIGN.md section 3 / C10",
        note="Trusted: Kani/CBMC, the reference map in h_bus.rs (written from the doc table). Value law of 0xF2 is C14's.",
        technique=KANI + "one-operation inductive frame lemmas from an arbitrary state"),
    "C14": dict(
        category="model_checking",
        text="Every board operation (setters with all 2^32 f32 patterns, DAC/control writes through Bus::write with all bytes) is run "
             "once from an arbitrary board satisfying a representation invariant and compared with a reference model (clamp, DAC law, "
             "comparator rule, UIO direction rule, edge-interrupt rule, fan period law); the invariant is proved for Board::new() and "
             "preserved by each operation, so all interleavings are covered by induction.",
        design_ref="DESIGN.md section 3 / C14",
        note="Trusted: Kani/CBMC incl. its IEEE-754 float encoding; reference model in h_board.rs. Resets are outside C14's operation list.",
        technique=KANI + "inductive one-operation lemmas under a representation invariant, f32 arguments as symbolic bit patterns"),
    "C07": dict(
        category="model_checking",
        text="cpu_reset, master_reset and load are executed symbolically from a fully arbitrary Machine (all hidden fields through "
             "hooks) and every field is compared with its documented post-value or its pre-value; load: RAM == image followed by zeros from an "
             "arbitrary RAM (empty program, image lengths 0, 2 quick / 16 thorough, bytes symbolic), and from a fully arbitrary machine all hidden "
             "state equal to a new machine given the same program (length 0 quick; 1, 3, 8, 16 thorough).",
        design_ref="DESIGN.md section 3 / C07",
        note="Bound: image length (concrete per harness); one-line or empty ByteCode. Cycle-for-cycle equality is derived from hidden-state equality + determinism of the edge.",
        technique=KANI + "postconditions from an arbitrary pre-state (histories abstracted by the arbitrary state)"),
    "C05": dict(
        category="model_checking",
        text="One-edge lemmas from every state satisfying the invariant: the state after an edge equals the supervision rule "
             "(reference forbidden-band formula, symbolic SP/PC/limits), registers change only by the pending commit, the invariant "
             "'Running or Stopped implies legal SP and PC' is inductive over edge/continue/reset/key, a halted edge is the identity on "
             "every field, only continue leaves Stopped.",
        design_ref="DESIGN.md section 3 / C05",
        note="Assumes limits are not changed while running (raw setters outside the property).",
        technique=KANI + "inductive one-edge lemmas from a fully symbolic machine state"),
    "C13": dict(
        category="model_checking",
        text="Each public mutator (clock edge, key interrupt, continue, both resets, four input setters, nine board setters with all "
             "f32 bit patterns, Bus::read/write with symbolic address) is run once from every state satisfying Inv with Kani's "
             "overflow/bounds/unwrap/unreachable checks as the assertion; Inv is preserved, so no interleaving of any length can panic.",
        design_ref="DESIGN.md section 3 / C13",
        note="Assumes stack size != NotSet (established by load). Dev-profile semantics (overflow checks on) - stricter than release.",
        technique=KANI + "panic-freedom of each call from an arbitrary invariant state"),
})

CHECKS.update({
    "C01": dict(
        category="model_checking",
        text="Compositional bounded model checking of the real clock-edge code: (1) one solver lemma proves the sequencing of an edge (next micro "
             "address, IR update, flip-flop) equal to a per-word model for all 512 words and every state; (2) over that proved model the driver "
             "enumerates every micro path of every defined first and second byte; (3) one harness per path starts from an ARBITRARY boundary state "
             "(all registers incl. stale scratch, flags, 240 RAM bytes, I/O, board, pending commit), runs the real trigger_clock_edge along the path "
             "(control re-concretised by assume/set) and compares registers R0-R5, flags incl. upper bits, RAM, I/O registers, board and the next "
             "fetched byte with an ISA-level reference; MUL/DIV by loop invariants and ranking functions from arbitrary loop-head states. No bound on "
             "data; sequences of instructions by induction over boundary states. Quick = one path per micro-routine family, thorough = all 125 paths.",
        design_ref="DESIGN.md sections 2 and 3 / C01",
        note="Assumes: machine stays Running (halts are C05), no interrupt taken at the end (C04), L-wait lemma for skipped wait edges. Oracle: isa_ref.rs "
             "(written from the instruction table and the listing's instruction names); memory behind the CPU is the real Bus (C10/C14). Logging compiled out.",
        technique=KANI + "sequencer lemma + per-micro-path harnesses with symbolic data, loop invariants for MUL/DIV"),
    "C15": dict(
        category="model_checking",
        text="Same path harnesses as C01 in timing mode: clock edges between two instruction boundaries == micro-steps of the path (from the proved "
             "sequencer model) + pending wait at the start + one per bus step touching 0x00-0xEF, with all access addresses symbolic so the 0xEF/0xF0 "
             "boundary (code at the boundary, stack at the boundary) is decided by the solver; plus the one-edge lemmas 'a wait swallows exactly one "
             "edge' and 'wait pending iff the new word accessed RAM' from a fully symbolic state.",
        design_ref="DESIGN.md section 3 / C15",
        note="Micro-step counts per form come from the model proved equal to the code in the same run; access counts from the reference model.",
        technique=KANI + "per-path edge counting with symbolic addresses + one-edge wait lemmas"),
    "C09": dict(
        category="model_checking",
        text="Two solver queries prove, from every machine state with the micro address symbolic, that the real edge's next address / IR update / "
             "flip-flop equal a per-word specialised model regenerated from the source; the driver then explores the whole abstract control space of "
             "that model (address x IR under all flag, ALU-condition, flip-flop and fetched-byte inputs) and checks C09's facts: only programmed words, "
             "block confinement, exact set of never-completing first bytes, defined second bytes complete, only MUL/DIV loop; MUL/DIV termination "
             "by solver-checked ranking functions from arbitrary loop-head states (no enumeration of operand pairs).",
        design_ref="DESIGN.md section 2.3 / C09",
        note="Graph search is ordinary code over a solver-proved transition relation. A violated fact is reported only if the model lemma passed in the same run.",
        technique=KANI + "model-equivalence lemma for the micro-sequencer + exhaustive graph search over the proved model + ranking lemmas"),
    "C04": dict(
        category="model_checking",
        text="Obligations, each a solver query over the real code from arbitrary states: the key sets the flip-flop iff MICR bit 0; the flip-flop "
             "persists over every edge that does not sample it and is cleared by the sampling edge (so the trigger cycle is arbitrary: inside "
             "multi-cycle instructions, waits, MUL/DIV loops); sampling happens only in the last word of a routine and EI/DI/RETI end without it "
             "(from the proved sequencer model); every instruction path whose last word takes the interrupt branch leaves exactly the instruction's "
             "ISA effect at the 'int:' word with the flip-flop cleared (8 paths quick, all 102 thorough); the entry routine pushes FR then PC, "
             "clears IE, jumps to 2 (one harness per distinct 'int:' word); RETI restores PC and FR. Transparency of a register-preserving ISR is derived from these + C01, not run as one scenario.",
        design_ref="DESIGN.md section 3 / C04",
        note="'Enabled' = MICR.0 at the key press and IE at the next sampling word. No bounded end-to-end interrupted-vs-uninterrupted run is included.",
        technique=KANI + "flip-flop one-edge lemmas + entry/RETI path harnesses + sequencer-model facts"),
    "C02": dict(
        category="model_checking",
        text="One step of the real translator (push_instruction via a guarded hook) from a symbolic address counter for every instruction form: "
             "emitted bytes/label references == reference encoding, counter' == counter + bytes emitted (the inductive step behind correct label "
             "addresses for programs of any length), relative-jump closure == target - (next+2) mod 256. AST shape concrete per harness, registers/"
             "constants/counter symbolic. Two-operand class: leaf encoders for 33 of 48 shapes per class + byte count/counter through "
             "push_instruction + opcode-base dispatch (second byte) on the register/register shape.",
        design_ref="DESIGN.md section 3 / C02",
        note="NOT covered: label table (HashMap insert/lookup, case), finish() substitution, line/byte pairing; 15 heavy two-operand shapes per class only "
             "by halves; .DB item count <= 4; .DW not covered (does not finish in CBMC). RandomState::new stubbed, logging compiled out.",
        technique=KANI + "one translator step per AST shape from a symbolic address counter"),
    "C06": dict(
        category="model_checking",
        text="Panic freedom (Kani's default checks) of one translator step for every operand shape the grammar admits (DEC with all 8 source shapes, "
             "two-operand class pairwise, .ORG to any address from any counter, a 4-byte instruction at every counter value) and of Machine::load "
             "with an image of symbolic length up to 260 bytes. Counterexamples are confirmed through the public path (text -> parse -> compile -> "
             "load) before they count. Four known findings are listed; residual harnesses keep the rest of each domain covered.",
        design_ref="DESIGN.md section 3 / C06",
        note="Premise 'parser-accepted' over-approximated by AST shapes + public-path confirmation. Label-case crash (HashMap half) not covered.",
        technique=KANI + "panic freedom of translator step and load, counterexamples confirmed through the public API"),
    "C11": dict(
        category="model_checking",
        text="Machine::trigger_key_clock in Assembly mode is checked against an explicit single-edge stepping loop with the clock edge replaced by an "
             "ARBITRARY deterministic automaton (symbolic next-state/micro-address/run-state tables): for every behaviour of the edge and every "
             "start state the step issues exactly the edges up to the next boundary or halt, for steps of at most 6 (quick) / 12 (thorough) edges; a "
             "second lemma with a counter-shaped edge function (symbolic leave/back/halt positions and start phase) covers steps of up to 100 (quick) / "
             "220 (thorough) edges (every instruction except DIV with a quotient above ~105 and the longest MULs); Real mode = exactly one edge. "
             "'A step always returns' is decided from the proved sequencer graph; the 20 undefined first bytes for which it does not are a known finding.",
        design_ref="DESIGN.md section 3 / C11",
        note="The real edge is stubbed in this lemma (it is C01/C05/C09's subject); counterexamples are confirmed on the real code by a native sweep "
             "over fixed programs x phases. Quick tier: steps longer than 100 edges are outside (a cap above the bound is invisible to it).",
        technique=KANI + "stepping loop vs reference loop over an uninterpreted (table-driven) edge function"),
    "C03": dict(
        category="other",
        text="Reduced claim: bounded equivalence of the LINE LANGUAGE only. The PEG semantics of the real grammar file (ordered choice, greedy "
             "repetition, lookahead) is encoded for a symbolic string and compared by z3 with a declarative reference (mnemonic table x operand shapes "
             "x semantic numeric ranges): unsat for all lines up to 9 (quick) / 12 (thorough) characters, numeric/label/register tokens up to 14 / 20, "
             "header up to 12. The encoder is validated on every run against the real parser on the repo's programs.",
        design_ref="DESIGN.md section 3 / C03",
        note="NOT covered: the Rust half (pest runtime, AST construction, 'never panics', 40-label limit, undefined labels, Unicode) - cannot be executed "
             "symbolically (2 symbolic bytes > 15 min).",
        technique="PEG grammar -> SMT (z3) encoding over a symbolic bounded string, equivalence with a reference language; counterexamples replayed through the real parser"),
})

NOT_APPLICABLE = {
    "C12": "RunnerConfig::run begins with AsmParser::parse + Translator::compile (pest runtime, HashMap/SipHash): not "
           "encodable by Kani/CBMC within reach (concrete one-line program, max_cycles<=3: >7 min, unfinished); the CLI "
           "half (stdout, exit status) is process-level behaviour outside any encoder here.",
    "C16": "Both halves out of reach for the solver: Display goes through core::fmt + the pad crate, the parser is the "
           "pest runtime (2 symbolic bytes: >15 min in symbolic execution). A model of the format templates would be a "
           "re-implementation of format.rs, not a check of it.",
    "C17": "Event loop (crossterm), tui-rs layout/rendering and nom's float/tag_no_case (Unicode tables, dec2flt) cannot be "
           "encoded; the one reachable fragment (line editor) was killed after 15 min of symbolic execution at 9.9 GB for "
           "3 symbolic keys and is too small a part of the statement to claim it.",
}

PENDING = "claimed in DESIGN.md; harnesses not yet registered in this commit (build in progress)"


def main():
    commits = subprocess.run("git -C /repo log --format=%h --grep='^verif hooks'", shell=True, text=True,
                             stdout=subprocess.PIPE).stdout.split()
    all_ids = ["C%02d" % i for i in range(1, 18)]
    checks = []
    for pid in sorted(CHECKS):
        c = CHECKS[pid]
        checks.append({
            "property_id": pid,
            "quick_cmd": "./check %s --tier quick" % pid,
            "thorough_cmd": "./check %s --tier thorough" % pid,
            "evidence_file": "/verif/evidence/%s.json" % pid,
            "replay_cmd_template": "./check %s --replay {path}" % pid,
            "engine": "kani-cbmc",
            "level_claimed": {"category": c["category"], "text": c["text"], "design_ref": c["design_ref"]},
            "level_note": c["note"],
            "technique": c["technique"],
        })
    na = [{"property_id": p, "reason": r} for p, r in sorted(NOT_APPLICABLE.items())]
    for pid in all_ids:
        if pid not in CHECKS and pid not in NOT_APPLICABLE:
            na.append({"property_id": pid, "reason": PENDING})
    for c in checks:
        if c["property_id"] == "C03":
            c["engine"] = "peg-smt"
    m = {
        "version": 1,
        "setup_cmd": "./setup.sh",
        "hooks": {
            "guard": "cfg(any(kani, feature = \"verif-hooks\"))  (cargo feature verif-hooks of emulator-2a-lib; Kani sets cfg(kani))",
            "enable": "kani-lib depends on /repo/emulator-2a-lib by path with features=[\"verif-hooks\"]; cargo kani additionally sets --cfg kani",
            "baseline_off_cmd": "cd /repo && cargo test --workspace --no-fail-fast --offline",
            "source_commits": commits,
            "add_only": True,
        },
        "engines": [
            {"name": "kani-cbmc", "path": "/verif/kani-lib", "serves_properties": sorted(p for p in CHECKS if p != "C03"),
             "kind_free_text": "Kani 0.68 proof harnesses over the real crate (path dependency on /repo/emulator-2a-lib), "
                               "CBMC 6.11 + CaDiCaL; harnesses double as native replay functions (kani_shim)"},
            {"name": "peg-smt", "path": "/verif/peg", "serves_properties": ["C03"],
             "kind_free_text": "pest grammar file -> SMT encoding of PEG semantics over a symbolic bounded string (z3 python API)"},
        ],
        "checks": checks,
        "notes": "Solver-based checking only (see DESIGN.md, section 'Build-phase status' first). Exit codes: 0 held / known findings only, "
                 "1 VIOLATION (natively reproduced counterexample), 2 inconclusive (timeout, OOM, vacuity, non-reproducing counterexample) - "
                 "never reported as a pass. Parts of claimed properties that the solver cannot reach and that are therefore NOT covered: "
                 "C02/C06 label table + finish() (HashMap, case handling), ByteCode line/byte pairing, .DW, 15 of 48 two-operand shapes per class "
                 "(covered by halves only); C03 everything on the Rust side of the pest grammar (AST construction, never-panics, 40-label limit, "
                 "undefined labels); C04 no end-to-end interrupted-vs-uninterrupted run (obligation list instead); C11 steps longer than 100 edges in "
                 "the quick tier (220 in thorough). 46 independently seeded changes are filed under seeded/ (41 caught by the quick tier).",
        "not_applicable": na,
    }
    json.dump(m, open(os.path.join(VERIF, "MANIFEST.json"), "w"), indent=1)


if __name__ == "__main__":
    main()
