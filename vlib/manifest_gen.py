"""Writes /verif/MANIFEST.json from the tables below (keeps it valid at all times)."""
import json
import os
import subprocess

VERIF = os.path.dirname(os.path.dirname(os.path.abspath(__file__)))

CHECKS = {
    "C08": dict(
        category="model_checking",
        text="Complete: each of the 16 ALU functions is compared with the documented function table for all "
             "256x256 operands and both carry-ins by one SAT query over the compiled AluOutput::from_input "
             "(loop-free, so there is no bound). This is the whole input space the property quantifies over.",
        design_ref="DESIGN.md section 3 / C08",
        note="Trusted: Kani/CBMC semantics, refs::alu (oracle written from the documented list). "
             "Counterexamples are replayed natively (dev+release) before being reported.",
        technique="bounded model checking of the compiled code (Kani 0.68 -> CBMC 6.11 -> CaDiCaL), symbolic a,b,carry-in"),
}

KANI = "bounded model checking of the compiled code (Kani 0.68 -> CBMC 6.11 -> CaDiCaL), "
CHECKS.update({
    "C10": dict(
        category="model_checking",
        text="Inductive frame lemmas decided by the solver: one Bus::write / Bus::read / input setter from a fully arbitrary bus "
             "(240 symbolic RAM bytes, all registers, arbitrary board) with symbolic address and byte, against a reference address "
             "map; pairs of writes with both addresses symbolic. No bound on the single operations; histories of any length follow "
             "by induction, which is what read-after-write over all sequences needs.",
        design_ref="DESIGN.md section 3 / C10",
        note="Trusted: Kani/CBMC, the reference map in h_bus.rs (written from the doc table). Value law of 0xF2 is C14's.",
        technique=KANI + "one-operation inductive frame lemmas from an arbitrary state"),
    "C14": dict(
        category="model_checking",
        text="Every board operation (setters with all 2^32 f32 patterns, DAC/control writes through Bus::write with all bytes) is run "
             "once from an arbitrary board satisfying a representation invariant and compared with a reference model (clamp, DAC law, "
             "comparator rule, UIO direction rule, edge-interrupt rule, fan period law); the invariant is proved for Board::new() and "
             "preserved by each operation, so all interleavings are covered by induction.",
        design_ref="DESIGN.md section 3 / C14",
        note="Trusted: Kani/CBMC incl. its IEEE-754 float encoding; reference model in h_board.rs. Resets are outside C14's operation list.",
        technique=KANI + "inductive one-operation lemmas under a representation invariant, f32 arguments as symbolic bit patterns"),
    "C07": dict(
        category="model_checking",
        text="cpu_reset, master_reset and load are executed symbolically from a fully arbitrary Machine (all hidden fields through "
             "hooks) and every field is compared with its documented post-value or its pre-value; load additionally with a symbolic "
             "image (<= 4 bytes quick, <= 16 thorough) compared field-by-field with a new machine given the same program.",
        design_ref="DESIGN.md section 3 / C07",
        note="Bound: image length; one-line ByteCode. Cycle-for-cycle equality is derived from hidden-state equality + determinism of the edge.",
        technique=KANI + "postconditions from an arbitrary pre-state (histories abstracted by the arbitrary state)"),
    "C05": dict(
        category="model_checking",
        text="One-edge lemmas from every state satisfying the invariant: the state after an edge equals the supervision rule "
             "(reference forbidden-band formula, symbolic SP/PC/limits), registers change only by the pending commit, the invariant "
             "'Running or Stopped implies legal SP and PC' is inductive over edge/continue/reset/key, a halted edge is the identity on "
             "every field, only continue leaves Stopped.",
        design_ref="DESIGN.md section 3 / C05",
        note="Assumes limits are not changed while running (raw setters outside the property).",
        technique=KANI + "inductive one-edge lemmas from a fully symbolic machine state"),
    "C13": dict(
        category="model_checking",
        text="Each public mutator (clock edge, key interrupt, continue, both resets, four input setters, nine board setters with all "
             "f32 bit patterns, Bus::read/write with symbolic address) is run once from every state satisfying Inv with Kani's "
             "overflow/bounds/unwrap/unreachable checks as the assertion; Inv is preserved, so no interleaving of any length can panic.",
        design_ref="DESIGN.md section 3 / C13",
        note="Assumes stack size != NotSet (established by load). Dev-profile semantics (overflow checks on) - stricter than release.",
        technique=KANI + "panic-freedom of each call from an arbitrary invariant state"),
})

NOT_APPLICABLE = {
    "C12": "RunnerConfig::run begins with AsmParser::parse + Translator::compile (pest runtime, HashMap/SipHash): not "
           "encodable by Kani/CBMC within reach (concrete one-line program, max_cycles<=3: >7 min, unfinished); the CLI "
           "half (stdout, exit status) is process-level behaviour outside any encoder here.",
    "C16": "Both halves out of reach for the solver: Display goes through core::fmt + the pad crate, the parser is the "
           "pest runtime (2 symbolic bytes: >15 min in symbolic execution). A model of the format templates would be a "
           "re-implementation of format.rs, not a check of it.",
    "C17": "Event loop (crossterm), tui-rs layout/rendering and nom's float/tag_no_case (Unicode tables, dec2flt) cannot be "
           "encoded; the one reachable fragment (line editor) was killed after 15 min of symbolic execution at 9.9 GB for "
           "3 symbolic keys and is too small a part of the statement to claim it.",
}

PENDING = "claimed in DESIGN.md; harnesses not yet registered in this commit (build in progress)"


def main():
    commits = subprocess.run("git -C /repo log --format=%h --grep='^verif hooks'", shell=True, text=True,
                             stdout=subprocess.PIPE).stdout.split()
    all_ids = ["C%02d" % i for i in range(1, 18)]
    checks = []
    for pid in sorted(CHECKS):
        c = CHECKS[pid]
        checks.append({
            "property_id": pid,
            "quick_cmd": "./check %s --tier quick" % pid,
            "thorough_cmd": "./check %s --tier thorough" % pid,
            "evidence_file": "/verif/evidence/%s.json" % pid,
            "replay_cmd_template": "./check %s --replay {path}" % pid,
            "engine": "kani-cbmc",
            "level_claimed": {"category": c["category"], "text": c["text"], "design_ref": c["design_ref"]},
            "level_note": c["note"],
            "technique": c["technique"],
        })
    na = [{"property_id": p, "reason": r} for p, r in sorted(NOT_APPLICABLE.items())]
    for pid in all_ids:
        if pid not in CHECKS and pid not in NOT_APPLICABLE:
            na.append({"property_id": pid, "reason": PENDING})
    m = {
        "version": 1,
        "setup_cmd": "./setup.sh",
        "hooks": {
            "guard": "cfg(any(kani, feature = \"verif-hooks\"))  (cargo feature verif-hooks of emulator-2a-lib; Kani sets cfg(kani))",
            "enable": "kani-lib depends on /repo/emulator-2a-lib by path with features=[\"verif-hooks\"]; cargo kani additionally sets --cfg kani",
            "baseline_off_cmd": "cd /repo && cargo test --workspace --no-fail-fast --offline",
            "source_commits": commits,
            "add_only": True,
        },
        "engines": [
            {"name": "kani-cbmc", "path": "/verif/kani-lib", "serves_properties": sorted(CHECKS),
             "kind_free_text": "Kani 0.68 proof harnesses over the real crate (path dependency on /repo/emulator-2a-lib), "
                               "CBMC 6.11 + CaDiCaL; harnesses double as native replay functions (kani_shim)"},
        ],
        "checks": checks,
        "notes": "Solver-based checking only (see DESIGN.md). Exit codes: 0 held / known findings only, 1 VIOLATION "
                 "(natively reproduced counterexample), 2 inconclusive (timeout, OOM, vacuity, non-reproducing "
                 "counterexample) - never reported as a pass.",
        "not_applicable": na,
    }
    json.dump(m, open(os.path.join(VERIF, "MANIFEST.json"), "w"), indent=1)


if __name__ == "__main__":
    main()
