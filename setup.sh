#!/bin/bash
# Offline setup: pre-build the harness crate's dependencies for Kani and the native replay binary.
set -e
cd "$(dirname "$0")"
export CARGO_NET_OFFLINE=true
mkdir -p evidence/replays kani-lib/src/gen
[ -f kani-lib/src/gen/mod.rs ] || echo "" > kani-lib/src/gen/mod.rs
python3 - <<'PY'
import sys, os
sys.path.insert(0, os.getcwd())
from vlib import driver
driver.write_registry()
PY
# builds the dependencies of the harness crate for Kani once (one tiny harness is enough)
(cd kani-lib && cargo kani --only-codegen --exact --harness h_alu::alu_f00_addh >/dev/null 2>&1 || true)
(cd kani-lib && cargo build --offline --bin replay --target-dir target-native >/dev/null 2>&1 || true)
echo "setup done"
